#!/venv/bin/python
"""probe_runner.py <cmdfile> <order-seed>  — evaluate the commands of <cmdfile> on the implementation in a FRESH
interpreter, in an order determined by the seed, and print one JSON object {index: observation}."""
import json
import os
import random
import sys

sys.path.insert(0, os.path.dirname(os.path.abspath(__file__)))
import common  # noqa: E402

common.ensure_env()
import impl  # noqa: E402

cmds = [l.rstrip("\n") for l in open(sys.argv[1])]
order = list(range(len(cmds)))
seed = int(sys.argv[2])
if seed == -1:
    order.reverse()
elif seed > 0:
    random.Random(seed).shuffle(order)
out = {}
for i in order:
    out[i] = impl.impl_exec(cmds[i])
print(json.dumps(out))

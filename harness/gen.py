"""Input generators shared by the checks.  Every random choice comes from the rng passed in."""
import itertools

from pyubx2.ubxhelpers import calc_checksum


def fletcher(b):
    a = c = 0
    for x in b:
        a = (a + x) & 0xFF
        c = (c + a) & 0xFF
    return bytes((a, c))


def ubx_frame(cls, mid, payload, bad=False):
    body = bytes([cls, mid]) + len(payload).to_bytes(2, "little") + payload
    ck = fletcher(body)
    if bad:
        ck = bytes([ck[0] ^ 1, ck[1]])
    return b"\xb5\x62" + body + ck


def hx(b):
    return b.hex() if b else "-"


def sample_frames(rng, n=12, maxlen=40):
    """A mix of known and unknown class/ids, zero-length, short and longer payloads."""
    out = [
        ubx_frame(1, 2, b""),                # zero-length
        ubx_frame(5, 1, b"\x06\x01"),        # ACK-ACK
        ubx_frame(6, 1, b"\x01\x02"),        # CFG-MSG poll form
        ubx_frame(1, 7, bytes(92)),          # NAV-PVT size
        ubx_frame(0x77, 0x77, b"\x01\x02\x03"),  # unknown
        ubx_frame(0x13, 0x00, b""),          # MGA, empty
        ubx_frame(0, 0, b"\x00"),
        ubx_frame(255, 255, b"\xff" * 5),
    ]
    while len(out) < n:
        L = rng.choice([0, 1, 2, 3, 4, 7, 8, 16, rng.randrange(0, maxlen)])
        out.append(ubx_frame(rng.randrange(256), rng.randrange(256), bytes(rng.randrange(256) for _ in range(L))))
    return out


def substitutions(frame, values=None):
    for i in range(len(frame)):
        for v in (values if values is not None else range(256)):
            if v != frame[i]:
                yield frame[:i] + bytes([v]) + frame[i + 1:]


def insertions(frame, values):
    for i in range(len(frame) + 1):
        for v in values:
            yield frame[:i] + bytes([v]) + frame[i:]


def deletions(frame):
    for i in range(len(frame)):
        yield frame[:i] + frame[i + 1:]


def truncations(frame):
    for k in range(len(frame)):
        yield frame[:k]


def bursts(frame, rng, n=40):
    for _ in range(n):
        if len(frame) < 2:
            return
        i = rng.randrange(len(frame))
        L = rng.randrange(2, 6)
        yield frame[:i] + bytes(rng.randrange(256) for _ in range(L)) + frame[i + L:]


def all_strings(alphabet, maxlen):
    for L in range(maxlen + 1):
        for t in itertools.product(alphabet, repeat=L):
            yield bytes(t)


# lengths at which chunked / folded / buffered implementations change behaviour (powers of two and their
# neighbours, the 16-bit limit); used for checksums, payloads and reads
LONG_LENGTHS = (255, 256, 257, 1023, 1024, 1025, 4090, 4091, 4092, 4093, 4096, 4097, 4100, 5000, 8188, 8191, 8192,
                8193, 9000, 12345, 16384, 32768, 40000, 65531, 65535)


def long_bodies(rng, quick=True):
    """(length, bytes) with random, all-ff and ramp contents at LONG_LENGTHS (quick: a rotating subset)."""
    out = []
    ls = LONG_LENGTHS if not quick else tuple(rng.sample(LONG_LENGTHS, 9)) + (4092, 4093, 8192, 65535)
    for L in ls:
        out.append(bytes(rng.getrandbits(8) for _ in range(L)))
        if not quick or rng.random() < 0.3:
            out.append(b"\xff" * L)
    return out


def wellformed_py(f):
    """Independent reading of the frame definition (used for inputs too long for the model's closed-form sums,
    which are quadratic): b5 62, class, id, LE length == actual payload length, textbook Fletcher-8."""
    return (len(f) >= 8 and f[0:2] == b"\xb5\x62" and int.from_bytes(f[4:6], "little") == len(f) - 8
            and f[-2:] == fletcher(f[2:-2]))


def frame_with_checksum(cls, mid, target, rng, n=6):
    """A valid frame (payload of n bytes) whose two checksum bytes are exactly `target` (Fletcher-8 is linear: the last
    two payload bytes are solved for by search)."""
    for _ in range(200):
        head = bytes(rng.randrange(256) for _ in range(n - 2))
        for a in range(256):
            for b in range(256):
                pl = head + bytes([a, b])
                f = ubx_frame(cls, mid, pl)
                if f[-2:] == target:
                    return f
    return None


SPECIAL_CHECKSUMS = (b"\r\n", b"\n\n", b"\x00\x00", b"\xff\xff", b"\xb5\x62", b"\x24\x47", b"\xd3\x00", b"'\"", b", ")

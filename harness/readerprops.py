"""Shared machinery of the reader properties C06, C07, C09, C10, C11, C12 (and C08's reader half)."""
import pynmeagps
import pyrtcm
from pyubx2 import UBXReader, protocol
from pyubx2 import exceptions as ube
import pynmeagps.exceptions as nme
import pyrtcm.exceptions as rte

import common
import impl
import readerlib as rl

PROT_ERRS = (ube.UBXMessageError, ube.UBXTypeError, ube.UBXParseError, ube.UBXStreamError,
             nme.NMEAMessageError, nme.NMEATypeError, nme.NMEAParseError, nme.NMEAStreamError,
             rte.RTCMMessageError, rte.RTCMParseError, rte.RTCMStreamError, rte.RTCMTypeError)

ASSUMPTIONS = [
    "the three protocol parsers are oracles in the theorems; here their answers are recorded from the real "
    "pynmeagps 1.1.7 / pyrtcm 1.2.0 / pyubx2 parsers during each run and fed to the model",
    "stream.read(n) returns at most n bytes; BytesIO / the scripted socket model the transports",
]
TRUSTED = ["pynmeagps.NMEAReader.parse and pyrtcm.RTCMReader.parse (third-party; oracles)"]


def show(x):
    return str(x)


def items_key(items):
    return [(raw, None if p is None else (type(p).__name__, show(p))) for raw, p in items]


def correspond_runs(ctx, cases, label):
    """cases: list of dict(stream=bytes|None, events=list|None, pf, qe, parsing, handler, validate, msgmode,
    bufsize, end).  Runs the implementation (recording parser answers), then the model with that oracle
    table; records disagreements; returns the observations."""
    rl.install()
    try:
        obs_list = []
        cmds = []
        for c in cases:
            if c.get("events") is not None:
                obs = rl.run_reader(None, c["pf"], c["qe"], c["parsing"], c.get("validate", 1), c.get("msgmode", 0),
                                    c.get("handler", True), sock_events=c["events"], bufsize=c.get("bufsize", 4096),
                                    sock_end=c.get("end", "close"))
                cmds.append(rl.model_sock_cmd(c["model_events"], c["pf"], c["qe"], c["parsing"], obs["table"]))
            else:
                obs = rl.run_reader(c["stream"], c["pf"], c["qe"], c["parsing"], c.get("validate", 1),
                                    c.get("msgmode", 0), c.get("handler", True), bf=c.get("bf", True))
                cmds.append(rl.model_cmd(c["stream"], c["pf"], c["qe"], c["parsing"], obs["table"]))
            obs_list.append(obs)
    finally:
        rl.uninstall()
    try:
        mout = common.run_model(cmds, shards=16)
    except Exception as e:  # pylint: disable=broad-except
        ctx.notes.append("model not runnable: %r" % (e,))
        mout = ["ERR model-unavailable"] * len(cmds)
    import hashlib
    cap = 12 if ctx.quick() else 60
    for c, obs, cmd, mo in zip(cases, obs_list, cmds, mout):
        # sample for the in-Coq re-evaluation (extraction cross-check); short commands only
        pool = ctx.vm_pool.setdefault(cmd.split(" ", 1)[0], [])
        if len(cmd) < 3000:
            if len(pool) < cap:
                pool.append((cmd, mo))
            elif ctx.rng.random() < 0.02:
                pool[ctx.rng.randrange(cap)] = (cmd, mo)
        io_ = rl.canon_run(obs)
        a, b = mo, io_
        if c.get("events") is not None:
            # the final socket state is only comparable as "bytes not consumed"
            pass
        if not c.get("handler", True):
            # without a handler the errors go to the logger: compare their number only
            a = _reports_to_count(a)
            b = _reports_to_count(b)
        ctx.evaluations += 1
        ctx.traces += 1
        h = hashlib.blake2b((cmd.split(" ", 5)[5] + "|" + b).encode(), digest_size=8).digest()
        if h not in ctx.distinct:
            ctx.distinct.add(h)
            if obs["items"] or obs["reports"]:
                ctx.nontrivial.add(h)
        ctx.count(label + ":items=%d" % min(len(obs["items"]), 6))
        if obs["raised"]:
            ctx.count(label + ":raised=" + obs["raised"])
        if a != b:
            ctx.disagreements.append({"cmd": cmd[:4000], "model": mo[:2000], "impl": io_[:2000], "label": label})
    if cmds:
        ctx.sample({"cmd": cmds[len(cmds) // 2][:300], "model": mout[len(cmds) // 2][:300]})
    return obs_list


def _reports_to_count(line):
    import re
    m = re.search(r" REPORTS (\S+) RAISED", line)
    if not m:
        return line
    n = 0 if m.group(1) == "-" else len(m.group(1).split(","))
    return line[:m.start()] + " REPORTS #%d RAISED" % n + line[m.end():]


def direct_parse(proto, raw, validate=1, msgmode=0, bf=True):
    """What the protocol's own parser returns for `raw` under the reader's options."""
    with impl.quiet():
        if proto == 2:
            return UBXReader.parse(raw, validate=validate, msgmode=msgmode, parsebitfield=bf)
        if proto == 1:
            return pynmeagps.NMEAReader.parse(raw, validate=validate, msgmode=msgmode)
        return pyrtcm.RTCMReader.parse(raw, validate=validate, labelmsm=1)


def kind_proto(kind):
    return 2 if kind.startswith("ubx") else 1 if kind.startswith("nmea") else 4 if kind.startswith("rtcm") else 0


def expected_clean(parts, pf, parsing, validate=1, msgmode=0, bf=True):
    """The abstract reader of C06 on a clean chunk list."""
    exp = []
    for kind, raw in parts:
        p = kind_proto(kind)
        if p == 0 or not (pf & p):
            continue
        if not parsing:
            exp.append((raw, None))
            continue
        try:
            m = direct_parse(p, raw, validate, msgmode, bf)
        except PROT_ERRS:
            continue
        exp.append((raw, None if m is None else (type(m).__name__, show(m))))
    return exp


def is_slices(raws, s):
    pos = 0
    for r in raws:
        i = s.find(r, pos)
        if i < 0:
            return False
        pos = i + len(r)
    return True


def exact_slices(raws, s, final):
    """Stronger: consumed part = gaps + raws in order, checked greedily with positions."""
    return is_slices(raws, s[: len(s) - len(final)] if final else s)

#!/venv/bin/python
"""py2coq.py — translate the bodies of selected pyubx2 functions from /repo's working tree into Gallina
(coq/gen/PySrc.v) over the value domain of coq/model/PyMini.v.

The subset (anything else raises Untranslatable, which names the construct; the function is then left out of
`translated` and its tie to the source is the correspondence check alone):

  statements   docstring, `x = e`, `x op= e`, if/elif/else, return e, raise Exc(...), `for x in e:` whose body is
               assignments only
  expressions  constants, locals, module-level constants (int / bytes / str / tuple, read from the imported module),
               kwargs["name"], TABLE[e] for the payload tables and UBX_MSGIDS, e[a:b], e[i], a + b, a - b, a & b, a % b,
               len(e), bytes((a, b, ..)), val2bytes(e, T), bytes2val(e, T), calc_checksum(e), getinputmode(e),
               UBXMessage(...) (kept as an uninterpreted call), tuples, comparisons / and / or / not as values
  conditions   "name" in kwargs, e in (..), ==, !=, <, <=, >, >=, is None, is not None, and, or, not, truthiness

Control flow is translated by continuation duplication: every path through the function becomes one branch of nested
`if`s, so every local variable is a `let`.  Evaluation order and exceptions are kept by A-normal form in the `result`
monad.  The text inside an exception's constructor (f-strings over locals) is not translated: evaluating it is assumed
not to raise.
"""
import ast
import builtins
import importlib
import os
import sys

VERIF = os.path.dirname(os.path.dirname(os.path.abspath(__file__)))
SRC = os.environ.get("VERIF_REPO", "/repo") + "/src"
if sys.path[0:1] != [SRC]:
    sys.path.insert(0, SRC)


class Untranslatable(Exception):
    pass


class IOTerm(str):
    """A Coq term of type IO (world S) gv (as opposed to result gv): see py2coq_io.py."""


EXN = {"UBXMessageError": "EUBXMessage", "UBXParseError": "EUBXParse", "UBXTypeError": "EUBXType",
       "UBXStreamError": "EUBXStream", "ValueError": "EValue", "TypeError": "EType", "KeyError": "EKey",
       "IndexError": "EIndex", "AttributeError": "EAttribute", "OverflowError": "EOverflow", "EOFError": "EEOF"}


def coq_str(s):
    if not isinstance(s, str) or any(ord(c) < 32 or ord(c) > 126 or c == '"' for c in s):
        raise Untranslatable("string constant %r" % (s,))
    return '"%s"' % s


def coq_z(z):
    return "%d" % z if z >= 0 else "(%d)" % z


def lit(obj):
    if obj is None:
        return "gnone"
    if isinstance(obj, bool):
        return "(gbool %s)" % ("true" if obj else "false")
    if isinstance(obj, int):
        return "(gint %s)" % coq_z(obj)
    if isinstance(obj, bytes):
        return "(gbytes [%s]%%N)" % "; ".join(str(x) for x in obj)
    if isinstance(obj, str):
        return "(gstr %s)" % coq_str(obj)
    if isinstance(obj, tuple):
        return "(Tup [%s])" % "; ".join(lit(x) for x in obj)
    raise Untranslatable("constant of type %s" % type(obj).__name__)


def aty_of(t):
    from translate import aty
    return aty(t)


class FnTr:
    """Translate one function."""

    def __init__(self, mod, node, coqname, is_method=False, io=False, siblings=None):
        self.io = io
        self.siblings = siblings or {}
        self.calls = []
        self.mod = mod
        self.node = node
        self.coqname = coqname
        self.n = 0
        a = node.args
        if a.posonlyargs or a.kwonlyargs or a.vararg:
            raise Untranslatable("%s: parameter kinds" % node.name)
        self.params = [x.arg for x in a.args]
        self.is_method = bool(is_method)
        self.self_reads, self.self_writes = [], []
        if self.is_method:
            if not self.params or self.params[0] != "self":
                raise Untranslatable("%s: method without self" % node.name)
            self.params = self.params[1:]
        self.kwarg = a.kwarg.arg if a.kwarg else None
        self.defaults = {}
        for p, d in zip(self.params[len(self.params) - len(a.defaults):], a.defaults):
            self.defaults[p] = self.const_expr(d)
        self.assigned = {t.id for s in ast.walk(node) for t in getattr(s, "targets", []) if isinstance(t, ast.Name)}
        self.assigned |= {s.target.id for s in ast.walk(node) if isinstance(s, (ast.AugAssign, ast.For)) and isinstance(s.target, ast.Name)}

    # ---- names ----
    def fresh(self, p="t"):
        self.n += 1
        return "%s%d" % (p, self.n)

    def resolve(self, name):
        """A module-level name -> (kind, payload)."""
        import pyubx2.exceptions as ex
        import pyubx2.ubxhelpers as hp
        import pyubx2.ubxtypes_core as core
        import pyubx2.ubxtypes_get as tg
        import pyubx2.ubxtypes_poll as tp
        import pyubx2.ubxtypes_set as ts
        from pyubx2.ubxmessage import UBXMessage
        if hasattr(self.mod, name):
            obj = getattr(self.mod, name)
        elif hasattr(builtins, name):
            obj = getattr(builtins, name)
        else:
            raise Untranslatable("unknown name %s" % name)
        for tab, cn in ((tg.UBX_PAYLOADS_GET, "payloads_get"), (ts.UBX_PAYLOADS_SET, "payloads_set"),
                        (tp.UBX_PAYLOADS_POLL, "payloads_poll")):
            if obj is tab:
                return ("table", cn)
        if obj is core.UBX_MSGIDS:
            return ("msgids", None)
        if obj is core.UBX_CLASSES:
            return ("classes", None)
        import pyubx2.ubxvariants as uv
        if obj is uv.VARIANTS:
            return ("variants", None)
        for f, cn in ((hp.val2bytes, "g_val2bytes"), (hp.bytes2val, "g_bytes2val")):
            if obj is f:
                return ("typed", cn)
        for f, cn in ((hp.calc_checksum, "g_calc_checksum"), (hp.getinputmode, "g_getinputmode"), (builtins.len, "g_len")):
            if obj is f:
                return ("fn1", cn)
        if obj is builtins.bytes:
            return ("bytes", None)
        if obj is UBXMessage:
            return ("opaque", "UBXMessage")
        if isinstance(obj, type) and issubclass(obj, BaseException):
            for pn, cn in EXN.items():
                if obj is getattr(ex, pn, None) or obj is getattr(builtins, pn, None):
                    return ("exn", cn)
            raise Untranslatable("exception class %s" % name)
        if obj is None or isinstance(obj, (int, bytes, str, tuple)):
            return ("const", obj)
        raise Untranslatable("module-level name %s of type %s" % (name, type(obj).__name__))

    def const_expr(self, node):
        if isinstance(node, ast.Constant):
            return node.value
        if isinstance(node, ast.Name):
            k, v = self.resolve(node.id)
            if k == "const":
                return v
        raise Untranslatable("%s: non-constant default / type argument" % self.node.name)

    # ---- expressions: (binds, atom) ----
    def E(self, e, env):
        if isinstance(e, ast.Constant):
            return [], lit(e.value)
        if isinstance(e, ast.UnaryOp) and isinstance(e.op, (ast.USub, ast.Invert)) and isinstance(e.operand, ast.Constant) \
                and isinstance(e.operand.value, int) and not isinstance(e.operand.value, bool):
            return [], lit(-e.operand.value if isinstance(e.op, ast.USub) else ~e.operand.value)
        if isinstance(e, ast.Name):
            if e.id in env:
                return [], "v_" + e.id
            if e.id in self.assigned or e.id in self.params or e.id == self.kwarg:
                raise Untranslatable("%s: local %s may be unbound or is used as a value" % (self.node.name, e.id))
            k, v = self.resolve(e.id)
            if k != "const":
                raise Untranslatable("%s: name %s used as a value" % (self.node.name, e.id))
            return [], lit(v)
        if isinstance(e, ast.Attribute):
            if not (self.is_method and isinstance(e.value, ast.Name) and e.value.id == "self"):
                raise Untranslatable("%s: attribute access .%s" % (self.node.name, e.attr))
            return [], ("(attr %s)" % coq_str(e.attr)) if self.io else self.self_attr(e.attr, env)
        if isinstance(e, ast.IfExp):
            c = self.C(e.test, env)
            b1, a1 = self.E(e.body, env)
            b2, a2 = self.E(e.orelse, env)
            t, cn = self.fresh(), self.fresh("c")
            return [(t, "(do %s <- %s; if %s then (%s) else (%s))" % (
                cn, c, cn, self.wrap(b1, "Ok %s" % a1, True), self.wrap(b2, "Ok %s" % a2, True)))], t
        if isinstance(e, (ast.Tuple, ast.List)):
            bs, atoms = self.Es(e.elts, env)      # a list literal that is only read is rendered as a tuple
            return bs, "(Tup [%s])" % "; ".join(atoms)
        if isinstance(e, ast.Dict) and not e.keys:
            return [], "(Def [])"
        if isinstance(e, ast.Subscript):
            return self.subscript(e, env)
        if isinstance(e, ast.Call):
            return self.call(e, env)
        if isinstance(e, ast.BinOp):
            ops = {ast.Add: "g_add", ast.Sub: "g_sub", ast.BitAnd: "g_band", ast.Mod: "g_mod", ast.BitOr: "g_bor", ast.LShift: "g_shl"}
            if type(e.op) not in ops:
                raise Untranslatable("%s: operator %s" % (self.node.name, type(e.op).__name__))
            b1, a1 = self.E(e.left, env)
            b2, a2 = self.E(e.right, env)
            t = self.fresh()
            return b1 + b2 + [(t, "%s %s %s" % (ops[type(e.op)], a1, a2))], t
        if isinstance(e, ast.JoinedStr):
            bs, acc = [], None
            for part in e.values:
                if isinstance(part, ast.Constant) and isinstance(part.value, str):
                    a = lit(part.value)
                elif isinstance(part, ast.FormattedValue) and part.conversion == -1:
                    b, a0 = self.E(part.value, env)
                    bs += b
                    spec = part.format_spec
                    if spec is None:
                        fn = "g_fmt_str"
                    elif (isinstance(spec, ast.JoinedStr) and len(spec.values) == 1 and isinstance(spec.values[0], ast.Constant)
                          and spec.values[0].value == "02x"):
                        fn = "g_fmt_02x"
                    else:
                        raise Untranslatable("%s: format specification" % self.node.name)
                    a = self.fresh()
                    bs.append((a, "%s %s" % (fn, a0)))
                else:
                    raise Untranslatable("%s: f-string part" % self.node.name)
                if acc is None:
                    acc = a
                else:
                    t = self.fresh()
                    bs.append((t, "g_add %s %s" % (acc, a)))
                    acc = t
            return bs, (acc if acc is not None else lit(""))
        if isinstance(e, (ast.Compare, ast.BoolOp)) or (isinstance(e, ast.UnaryOp) and isinstance(e.op, ast.Not)):
            c = self.C(e, env)
            t = self.fresh()
            return [(t, "do b <- %s; Ok (gbool b)" % c)], t
        raise Untranslatable("%s: expression %s" % (self.node.name, type(e).__name__))

    def self_attr(self, x, env):
        if "self." + x in env:
            return "v_self_" + x
        if x not in self.self_reads:
            self.self_reads.append(x)
        return "s_" + x

    def Es(self, es, env):
        bs, atoms = [], []
        for x in es:
            b, a = self.E(x, env)
            bs += b
            atoms.append(a)
        return bs, atoms

    def subscript(self, e, env):
        v, s = e.value, e.slice
        if isinstance(v, ast.Name) and v.id == self.kwarg:
            if not (isinstance(s, ast.Constant) and isinstance(s.value, str)):
                raise Untranslatable("%s: kwargs[<non-constant>]" % self.node.name)
            t = self.fresh()
            return [(t, "kwget k %s" % coq_str(s.value))], t
        if isinstance(v, ast.Name) and v.id not in env and v.id not in self.assigned and v.id not in self.params:
            k, cn = self.resolve(v.id)
            if k in ("table", "msgids", "classes"):
                b, a = self.E(s, env)
                t = self.fresh()
                return b + [(t, ("g_tab %s %s" % (cn, a)) if k == "table" else ("g_msgids %s" % a) if k == "msgids" else ("g_classes %s" % a))], t
        b0, a0 = self.E(v, env)
        if isinstance(s, ast.Slice):
            if s.step is not None:
                raise Untranslatable("%s: slice step" % self.node.name)
            b1, a1 = self.E(s.lower, env) if s.lower is not None else ([], "gnone")
            b2, a2 = self.E(s.upper, env) if s.upper is not None else ([], "gnone")
            t = self.fresh()
            return b0 + b1 + b2 + [(t, "g_slice %s %s %s" % (a0, a1, a2))], t
        b1, a1 = self.E(s, env)
        t = self.fresh()
        return b0 + b1 + [(t, "g_index %s %s" % (a0, a1))], t

    def call(self, e, env):
        f = e.func
        if self.io:
            r = self.io_call(e, env)
            if r is not None:
                return r
        if (isinstance(e, ast.Call) and isinstance(e.func, ast.Attribute) and e.func.attr == "from_bytes"
                and isinstance(e.func.value, ast.Name) and e.func.value.id == "int" and "int" not in env
                and len(e.args) == 2 and not e.keywords and isinstance(e.args[1], ast.Constant) and e.args[1].value == "little"):
            b, a = self.E(e.args[0], env)
            t = self.fresh()
            return b + [(t, "g_int_from_le %s" % a)], t
        if (isinstance(f, ast.Attribute) and f.attr == "get" and isinstance(f.value, ast.Subscript)
                and isinstance(f.value.value, ast.Name) and f.value.value.id not in env
                and f.value.value.id not in self.assigned and self.resolve(f.value.value.id)[0] == "variants"
                and len(e.args) == 2 and not e.keywords):
            b0, a0 = self.E(f.value.slice, env)
            b1, a1 = self.E(e.args[0], env)
            b2, a2 = self.E(e.args[1], env)
            t = self.fresh()
            return b0 + b1 + b2 + [(t, "g_variants_get variants_modes %s %s %s" % (a0, a1, a2))], t
        if isinstance(f, ast.Name) and f.id in env:
            # a local that holds a selector function, called with positional arguments and **kwargs
            if not (len(e.keywords) == 1 and e.keywords[0].arg is None and isinstance(e.keywords[0].value, ast.Name)
                    and e.keywords[0].value.id == self.kwarg):
                raise Untranslatable("%s: call of a local without **kwargs" % self.node.name)
            b, atoms = self.Es(e.args, env)
            t = self.fresh()
            return b + [(t, "py_call v_%s [%s] k" % (f.id, "; ".join(atoms)))], t
        if not isinstance(e.func, ast.Name) or e.func.id in env or e.func.id in self.assigned:
            raise Untranslatable("%s: call of a non-global" % self.node.name)
        k, cn = self.resolve(e.func.id)
        if any(kw.arg is None for kw in e.keywords):
            raise Untranslatable("%s: **kwargs in a call" % self.node.name)
        if k == "fn1":
            if len(e.args) != 1 or e.keywords:
                raise Untranslatable("%s: %s arity" % (self.node.name, e.func.id))
            b, a = self.E(e.args[0], env)
            t = self.fresh()
            return b + [(t, "%s %s" % (cn, a))], t
        if k == "typed":
            if len(e.args) != 2 or e.keywords:
                raise Untranslatable("%s: %s arity" % (self.node.name, e.func.id))
            b, a = self.E(e.args[0], env)
            ty = self.const_expr(e.args[1])
            t = self.fresh()
            return b + [(t, "%s %s %s" % (cn, a, aty_of(ty)))], t
        if k == "bytes":
            if len(e.args) != 1 or e.keywords or not isinstance(e.args[0], (ast.Tuple, ast.List)):
                raise Untranslatable("%s: bytes(<not a literal tuple>)" % self.node.name)
            b, atoms = self.Es(e.args[0].elts, env)
            t = self.fresh()
            return b + [(t, "g_bytes_of [%s]" % "; ".join(atoms))], t
        if k == "opaque":
            b, atoms = self.Es(e.args, env)
            kws = []
            for kw in e.keywords:
                b2, a2 = self.E(kw.value, env)
                b += b2
                kws.append("(%s, %s)" % (coq_str(kw.arg), a2))
            return b, "(Call %s [%s] [%s])" % (coq_str(cn), "; ".join(atoms), "; ".join(kws))
        raise Untranslatable("%s: call of %s" % (self.node.name, e.func.id))

    def io_call(self, e, env):
        """Calls that only make sense in a method that reads the stream (see py2coq_io.py)."""
        f = e.func
        t = self.fresh()

        def is_self(x, attr=None):
            return isinstance(x, ast.Attribute) and isinstance(x.value, ast.Name) and x.value.id == "self" and (attr is None or x.attr == attr)
        if (isinstance(f, ast.Attribute) and f.attr == "from_bytes" and isinstance(f.value, ast.Name) and f.value.id == "int"
                and len(e.args) == 2 and isinstance(e.args[1], ast.Constant) and e.args[1].value == "little"
                and all(kw.arg == "signed" and isinstance(kw.value, ast.Constant) and kw.value.value is False for kw in e.keywords)):
            b, a = self.E(e.args[0], env)
            return b + [(t, "g_int_from_le %s" % a)], t
        if isinstance(f, ast.Attribute) and is_self(f.value, "_stream") and not e.keywords:
            if f.attr == "read" and len(e.args) == 1:
                b, a = self.E(e.args[0], env)
                return b + [(t, IOTerm("io_read rd %s" % a))], t
            if f.attr == "readline" and not e.args:
                return [(t, IOTerm("io_readline rdl"))], t
            raise Untranslatable("%s: stream method %s" % (self.node.name, f.attr))
        if isinstance(f, ast.Attribute) and is_self(f.value, "_logger") and not e.keywords:
            b, atoms = self.Es(e.args, env)
            return b + [(t, IOTerm("io_eff %s [%s]" % (coq_str("logger." + f.attr), "; ".join(atoms))))], t
        if is_self(f, "_errorhandler") and not e.keywords:
            b, atoms = self.Es(e.args, env)
            return b + [(t, IOTerm("io_eff %s [%s]" % (coq_str("errorhandler"), "; ".join(atoms))))], t
        if is_self(f) and f.attr in self.siblings and not e.keywords:
            b, atoms = self.Es(e.args, env)
            self.calls.append(f.attr)
            return b + [(t, IOTerm("py_io%s%s %s" % (f.attr, " fuel" if self.siblings[f.attr] else "", " ".join(atoms))))], t
        name = None
        if is_self(f, "parse"):
            name = "self.parse"
        elif isinstance(f, ast.Attribute) and f.attr == "parse" and isinstance(f.value, ast.Name) and f.value.id not in env:
            import pynmeagps
            import pyrtcm
            obj = getattr(self.mod, f.value.id, None)
            if obj is pynmeagps.NMEAReader:
                name = "NMEAReader.parse"
            elif obj is pyrtcm.RTCMReader:
                name = "RTCMReader.parse"
        if name:
            if any(kw.arg is None for kw in e.keywords):
                raise Untranslatable("%s: **kwargs in a call" % self.node.name)
            b, atoms = self.Es(e.args, env)
            kws = []
            for kw in e.keywords:
                b2, a2 = self.E(kw.value, env)
                b += b2
                kws.append("(%s, %s)" % (coq_str(kw.arg), a2))
            return b + [(t, "ext %s [%s] [%s]" % (coq_str(name), "; ".join(atoms), "; ".join(kws)))], t
        return None

    # ---- conditions: a term of type `result bool` ----
    def wrap(self, binds, body, pure=False):
        out = body
        for t, rhs in reversed(binds):
            if self.io and not pure:
                out = ("doM %s <- %s;\n%s" if isinstance(rhs, IOTerm) else "doM %s <- liftR (%s);\n%s") % (t, rhs, out)
            else:
                if isinstance(rhs, IOTerm):
                    raise Untranslatable("%s: a stream operation or method call inside a condition" % self.node.name)
                out = "do %s <- %s;\n%s" % (t, rhs, out)
        return out

    def C(self, e, env):
        if isinstance(e, ast.BoolOp):
            cs = [self.C(x, env) for x in e.values]
            out = cs[-1]
            for c in reversed(cs[:-1]):
                a = self.fresh("b")
                if isinstance(e.op, ast.And):
                    out = "(do %s <- %s; if %s then %s else Ok false)" % (a, c, a, out)
                else:
                    out = "(do %s <- %s; if %s then Ok true else %s)" % (a, c, a, out)
            return out
        if isinstance(e, ast.UnaryOp) and isinstance(e.op, ast.Not):
            a = self.fresh("b")
            return "(do %s <- %s; Ok (negb %s))" % (a, self.C(e.operand, env), a)
        if isinstance(e, ast.Compare):
            if len(e.ops) != 1:
                # a < b < c: every operand evaluated once, left to right, then the pairwise tests with short-circuit
                # (operands here have no side effects, so evaluating the last one early is not observable unless it raises)
                if not all(isinstance(o, (ast.Lt, ast.LtE, ast.Gt, ast.GtE, ast.Eq, ast.NotEq)) for o in e.ops):
                    raise Untranslatable("%s: chained comparison" % self.node.name)
                binds, atoms = self.Es([e.left] + list(e.comparators), env)
                parts = []
                for i, o in enumerate(e.ops):
                    l, r = atoms[i], atoms[i + 1]
                    parts.append({ast.Lt: "g_lt %s %s" % (l, r), ast.LtE: "g_le %s %s" % (l, r), ast.Gt: "g_lt %s %s" % (r, l),
                                  ast.GtE: "g_le %s %s" % (r, l), ast.Eq: "Ok (g_eq %s %s)" % (l, r),
                                  ast.NotEq: "Ok (negb (g_eq %s %s))" % (l, r)}[type(o)])
                out = parts[-1]
                for c in reversed(parts[:-1]):
                    a = self.fresh("b")
                    out = "(do %s <- %s; if %s then %s else Ok false)" % (a, c, a, out)
                return "(" + self.wrap(binds, out, True) + ")"
            op, l, r = e.ops[0], e.left, e.comparators[0]
            neg = isinstance(op, (ast.NotIn, ast.NotEq, ast.IsNot))

            def fin(binds, b):
                return "(" + self.wrap(binds, "Ok (%s)" % (("negb (%s)" % b) if neg else b), True) + ")"
            if isinstance(op, (ast.In, ast.NotIn)):
                if isinstance(r, ast.Name) and r.id == self.kwarg:
                    if not (isinstance(l, ast.Constant) and isinstance(l.value, str)):
                        raise Untranslatable("%s: <non-constant> in kwargs" % self.node.name)
                    return fin([], "kwin k %s" % coq_str(l.value))
                b1, a1 = self.E(l, env)
                if isinstance(r, ast.Tuple):
                    b2, atoms = self.Es(r.elts, env)
                elif isinstance(r, ast.Name) and r.id not in env and r.id not in self.assigned and self.resolve(r.id)[0] == "classes":
                    t = self.fresh("b")
                    return "(" + self.wrap(b1, "do %s <- g_in_classes %s; Ok (%s)" % (t, a1, ("negb %s" % t) if neg else t), True) + ")"
                elif isinstance(r, ast.Name) and r.id not in env and r.id not in self.assigned:
                    k, v = self.resolve(r.id)
                    if k != "const" or not isinstance(v, tuple):
                        raise Untranslatable("%s: `in %s`" % (self.node.name, r.id))
                    b2, atoms = [], [lit(x) for x in v]
                else:
                    raise Untranslatable("%s: `in` over a non-tuple" % self.node.name)
                return fin(b1 + b2, "g_in %s [%s]" % (a1, "; ".join(atoms)))
            if isinstance(op, (ast.Is, ast.IsNot)):
                if not (isinstance(r, ast.Constant) and r.value is None):
                    raise Untranslatable("%s: `is` against something other than None" % self.node.name)
                b1, a1 = self.E(l, env)
                return fin(b1, "g_is_none %s" % a1)
            b1, a1 = self.E(l, env)
            b2, a2 = self.E(r, env)
            if isinstance(op, (ast.Eq, ast.NotEq)):
                return fin(b1 + b2, "g_eq %s %s" % (a1, a2))
            rel = {ast.Lt: "g_lt %s %s" % (a1, a2), ast.LtE: "g_le %s %s" % (a1, a2),
                   ast.Gt: "g_lt %s %s" % (a2, a1), ast.GtE: "g_le %s %s" % (a2, a1)}
            if type(op) not in rel:
                raise Untranslatable("%s: comparison %s" % (self.node.name, type(op).__name__))
            return "(" + self.wrap(b1 + b2, rel[type(op)], True) + ")"
        b, a = self.E(e, env)
        return "(" + self.wrap(b, "Ok (g_truth %s)" % a, True) + ")"

    # ---- statements ----
    def block(self, stmts, env, cont):
        if not stmts:
            return cont(env)
        s, rest = stmts[0], stmts[1:]

        def k(env2):
            return self.block(rest, env2, cont)
        if isinstance(s, ast.Expr) and isinstance(s.value, ast.Constant) and isinstance(s.value.value, str):
            return k(env)
        if isinstance(s, ast.Pass):
            return k(env)
        if self.io and isinstance(s, ast.Expr) and isinstance(s.value, ast.Call):
            b, a = self.E(s.value, env)
            return self.wrap(b, k(env))
        if (self.is_method and isinstance(s, ast.Assign) and len(s.targets) == 1 and isinstance(s.targets[0], ast.Attribute)
                and isinstance(s.targets[0].value, ast.Name) and s.targets[0].value.id == "self"):
            x = s.targets[0].attr
            b, a = self.E(s.value, env)
            if x not in self.self_writes:
                self.self_writes.append(x)
            return self.wrap(b, "let v_self_%s := %s in\n%s" % (x, a, k(env | {"self." + x})))
        if self.is_method and isinstance(s, ast.Expr) and self.super_call(s.value):
            c = s.value
            b, atoms = self.Es(c.args, env)
            return self.wrap(b, "let eff := (eff ++ [Call %s [%s] []])%%list in\n%s" % (
                coq_str("super." + c.func.attr), "; ".join(atoms), k(env)))
        if isinstance(s, ast.Assign) and len(s.targets) > 1 and all(isinstance(t, ast.Name) for t in s.targets):
            b, a = self.E(s.value, env)
            names = [t.id for t in s.targets]
            if self.kwarg in names:
                raise Untranslatable("%s: kwargs reassigned" % self.node.name)
            fr = self.is_fresh(s.value, env)
            env2 = env | set(names)
            env2 = (env2 | {"fresh:" + n for n in names}) if fr and isinstance(s.value, ast.Constant) else (env2 - {"fresh:" + n for n in names})
            body = k(env2)
            for nm in reversed(names):
                body = "let v_%s := %s in\n%s" % (nm, a, body)
            return self.wrap(b, body)
        if isinstance(s, (ast.Assign, ast.AugAssign)):
            name, b, a = self.assign(s, env)
            fresh = isinstance(s, ast.AugAssign) or self.is_fresh(s.value, env)
            env2 = (env | {name, "fresh:" + name}) if fresh else ((env | {name}) - {"fresh:" + name})
            return self.wrap(b, "let v_%s := %s in\n%s" % (name, a, k(env2)))
        if isinstance(s, ast.If):
            c = self.C(s.test, env)
            cn = self.fresh("c")
            return ("doM %s <- liftR (%s);\nif %s then (\n%s\n) else (\n%s\n)" if self.io else "do %s <- %s;\nif %s then (\n%s\n) else (\n%s\n)") % (
                cn, c, cn, self.block(s.body, env, k), self.block(s.orelse, env, k))
        if isinstance(s, ast.Return):
            if s.value is None:
                return self.ret("gnone", env)
            b, a = self.E(s.value, env)
            return self.wrap(b, self.ret(a, env))
        if isinstance(s, ast.Raise):
            return self.raise_(s, env)
        if isinstance(s, ast.For):
            return self.for_(s, env, k)
        if isinstance(s, ast.Try):
            return self.try_(s, env, k)
        raise Untranslatable("%s: statement %s" % (self.node.name, type(s).__name__))

    def is_fresh(self, e, env):
        """Is the value of e an object nobody else can hold (so that an in-place operator on it is an assignment)?"""
        if isinstance(e, ast.Constant):
            return True
        if isinstance(e, ast.Name):
            return "fresh:" + e.id in env or (e.id not in env and e.id not in self.assigned and e.id not in self.params)
        if isinstance(e, (ast.BinOp, ast.Compare, ast.BoolOp, ast.UnaryOp)):
            return True            # operators on the modelled kinds build new objects
        if isinstance(e, ast.Subscript) and isinstance(e.slice, ast.Slice):
            return True            # a slice is a copy
        if isinstance(e, ast.IfExp):
            return self.is_fresh(e.body, env) and self.is_fresh(e.orelse, env)
        if isinstance(e, ast.Call) and isinstance(e.func, ast.Name) and e.func.id in ("len", "bytes", "val2bytes", "bytes2val", "calc_checksum", "getinputmode"):
            return True
        return False

    @staticmethod
    def super_call(c):
        return (isinstance(c, ast.Call) and isinstance(c.func, ast.Attribute) and not c.keywords
                and isinstance(c.func.value, ast.Call) and isinstance(c.func.value.func, ast.Name)
                and c.func.value.func.id == "super" and not c.func.value.args and not c.func.value.keywords)

    def ret(self, atom, env):
        """A plain function returns its value; a method returns (value, final values of the attributes of self it
        assigns anywhere, calls made on super())."""
        if self.io:
            return "retIO %s" % atom
        if not self.is_method:
            return "Ok %s" % atom
        self.returns.append(env)
        return "Ok (Tup [%s; Tup [@WRITES%d@]; Tup eff])" % (atom, len(self.returns) - 1)

    def assign(self, s, env):
        if isinstance(s, ast.Assign):
            if len(s.targets) != 1 or not isinstance(s.targets[0], ast.Name):
                raise Untranslatable("%s: assignment target" % self.node.name)
            name = s.targets[0].id
            b, a = self.E(s.value, env)
        else:
            if not isinstance(s.target, ast.Name):
                raise Untranslatable("%s: assignment target" % self.node.name)
            name = s.target.id
            if "fresh:" + name not in env:
                # `x op= e` updates the object x is bound to in place when that object is mutable (a bytearray or
                # list handed in by the caller): only translated as `x = x op e` when x cannot be shared
                raise Untranslatable("%s: in-place operator on %s, which may be an object shared with the caller" % (self.node.name, name))
            b, a = self.E(ast.BinOp(left=ast.Name(id=name, ctx=ast.Load()), op=s.op, right=s.value), env)
        if name == self.kwarg:
            raise Untranslatable("%s: kwargs reassigned" % self.node.name)
        return name, b, a

    def raise_(self, s, env):
        exc = s.exc
        if self.io and isinstance(exc, ast.Name) and exc.id in env:
            return "g_reraise v_%s" % exc.id
        if isinstance(exc, ast.Call):
            for a in list(exc.args) + [kw.value for kw in exc.keywords]:
                self.message_ok(a, env)
            exc = exc.func
        if not isinstance(exc, ast.Name):
            raise Untranslatable("%s: raise of a non-name" % self.node.name)
        k, cn = self.resolve(exc.id)
        if k != "exn":
            raise Untranslatable("%s: raise %s" % (self.node.name, exc.id))
        return ("raiseIO %s" if self.io else "Raise %s") % cn

    def always_exits(self, stmts):
        for st in stmts:
            if isinstance(st, (ast.Return, ast.Raise)):
                return True
            if isinstance(st, ast.If) and st.orelse and self.always_exits(st.body) and self.always_exits(st.orelse):
                return True
            if isinstance(st, ast.Try) and not st.finalbody and not st.orelse and self.always_exits(st.body) \
                    and all(self.always_exits(h.body) for h in st.handlers):
                return True
        return False

    def try_(self, s, env, k):
        if self.io:
            raise Untranslatable("%s: try statement (handled by the store-based translation)" % self.node.name)
        return self.try0_(s, env, k)

    def try0_(self, s, env, k):
        """try: <body that always returns or raises>  except <one exception class> [as name]: <handler>"""
        if s.orelse or s.finalbody or len(s.handlers) != 1 or not isinstance(s.handlers[0].type, ast.Name):
            raise Untranslatable("%s: try statement shape" % self.node.name)
        if not self.always_exits(s.body):
            return self.try_through(s, env, k)
        kind, cn = self.resolve(s.handlers[0].type.id)
        if kind != "exn":
            raise Untranslatable("%s: except %s" % (self.node.name, s.handlers[0].type.id))
        body = self.block(s.body, env, lambda env2: "Raise EOther")
        henv = env | ({s.handlers[0].name} if s.handlers[0].name else set())
        hname = "let v_%s := gnone in\n" % s.handlers[0].name if s.handlers[0].name else ""
        handler = self.block(s.handlers[0].body, henv, k)
        return "g_catch (\n%s\n) %s (\n%s%s\n)" % (body, cn, hname, handler)

    def assigned_all_paths(self, stmts):
        """Names assigned on every path through stmts that reaches their end."""
        out = set()
        for st in stmts:
            if isinstance(st, ast.Assign):
                out |= {t.id for t in st.targets if isinstance(t, ast.Name)}
            elif isinstance(st, ast.AugAssign) and isinstance(st.target, ast.Name):
                out.add(st.target.id)
            elif isinstance(st, ast.If):
                a, b = self.assigned_all_paths(st.body), self.assigned_all_paths(st.orelse)
                if self.always_exits(st.body):
                    out |= b
                elif self.always_exits(st.orelse):
                    out |= a
                else:
                    out |= (a & b)
        return out

    def try_through(self, s, env, k):
        """try: B  except E: H   where B and H fall through: the names both assign on all their paths are handed to what
        follows; every other name either of them assigns is no longer usable afterwards (its value would depend on
        where B was interrupted); H may not read what B assigns."""
        if any(isinstance(n, ast.Return) for part in (s.body, s.handlers[0].body) for st in part for n in ast.walk(st)):
            raise Untranslatable("%s: return inside a try that can fall through" % self.node.name)
        if s.handlers[0].name:
            raise Untranslatable("%s: `except ... as name` in a try that can fall through" % self.node.name)
        kind, cn = self.resolve(s.handlers[0].type.id)
        if kind != "exn":
            raise Untranslatable("%s: except %s" % (self.node.name, s.handlers[0].type.id))
        def anyassigned(stmts):
            return {t.id for st in stmts for n in ast.walk(st) for t in (getattr(n, "targets", []) + ([n.target] if isinstance(n, (ast.AugAssign, ast.For)) else []))
                    if isinstance(t, ast.Name)}
        wb, wh = anyassigned(s.body), anyassigned(s.handlers[0].body)
        live = sorted(self.assigned_all_paths(s.body) & self.assigned_all_paths(s.handlers[0].body))
        if not live:
            raise Untranslatable("%s: try/except that hands nothing on" % self.node.name)
        reads_h = {n.id for st in s.handlers[0].body for n in ast.walk(st) if isinstance(n, ast.Name) and isinstance(n.ctx, ast.Load)}
        if reads_h & wb - wh:
            raise Untranslatable("%s: the handler reads what the try body assigns" % self.node.name)
        pat = "(%s)" % ", ".join("v_" + n for n in live) if len(live) > 1 else "v_" + live[0]

        def done(env2):
            if not all(n in env2 for n in live):
                raise Untranslatable("%s: try/except live variables" % self.node.name)
            return "Ok %s" % pat
        henv = frozenset(x for x in env if x not in wb and x != "fresh:" and not (x.startswith("fresh:") and x[6:] in wb))
        body = self.block(s.body, env, done)
        handler = self.block(s.handlers[0].body, henv, done)
        after = frozenset(x for x in env if x not in (wb | wh) and not (x.startswith("fresh:") and x[6:] in (wb | wh))) | set(live)
        st = self.fresh("st")
        return "do %s <- g_try (\n%s\n) %s (\n%s\n);\nlet '%s := %s in\n%s" % (st, body, cn, handler, pat, st, k(after))

    def message_ok(self, a, env):
        """The message of an exception: constants and f-strings over bound locals / constants / max, min, len, -, +."""
        for n in ast.walk(a):
            if isinstance(n, (ast.Constant, ast.JoinedStr, ast.FormattedValue, ast.Load, ast.BinOp, ast.Add, ast.Sub,
                              ast.Tuple)):
                continue
            if self.is_method and isinstance(n, ast.Attribute) and isinstance(n.value, ast.Name) and n.value.id == "self":
                continue
            if self.is_method and isinstance(n, ast.Name) and n.id == "self":
                continue
            if isinstance(n, ast.Name):
                if n.id in env or n.id in ("max", "min", "len", "escapeall") or (n.id not in self.assigned and self.resolve(n.id)[0] == "const"):
                    continue
            if isinstance(n, ast.Call) and isinstance(n.func, ast.Name) and n.func.id in ("max", "min", "len", "escapeall") and not n.keywords:
                continue
            raise Untranslatable("%s: exception message uses %s" % (self.node.name, ast.dump(n)[:60]))

    def for_(self, s, env, k):
        if self.io:
            raise Untranslatable("%s: for loop in a stream method" % self.node.name)
        if s.orelse or not isinstance(s.target, ast.Name):
            raise Untranslatable("%s: for/else or tuple target" % self.node.name)
        if not all(isinstance(x, (ast.Assign, ast.AugAssign)) for x in s.body):
            raise Untranslatable("%s: a loop body that is not straight-line assignments" % self.node.name)
        bi, ai = self.E(s.iter, env)
        x = s.target.id
        names = []
        inner = (env | {x}) - {"fresh:" + x}
        steps = []
        for st in s.body:
            name, b, a = self.assign(st, inner)
            if name == x:
                raise Untranslatable("%s: loop variable reassigned" % self.node.name)
            if name not in env:
                raise Untranslatable("%s: %s first assigned inside a loop" % (self.node.name, name))
            if name not in names:
                names.append(name)
            steps.append((name, b, a))
            inner = inner | {name}
        pat = "(%s)" % ", ".join("v_" + n for n in names) if len(names) > 1 else "v_" + names[0]
        body = "Ok %s" % pat
        for name, b, a in reversed(steps):
            body = self.wrap(b, "let v_%s := %s in\n%s" % (name, a, body))
        it, st = self.fresh("it"), self.fresh("st")
        return self.wrap(bi, "do %s <- g_iter %s;\ndo %s <- g_fold (fun st v_%s => let '%s := st in\n%s) %s %s;\nlet '%s := %s in\n%s" % (
            it, ai, st, x, pat, body, it, pat, pat, st, k(env)))

    def translate(self):
        env = frozenset(self.params)
        body = [s for s in self.node.body]
        self.returns = []
        term = self.block(body, env, lambda env2: self.ret("gnone", env2))
        if self.is_method and not self.io:
            # the attributes written anywhere in the method, in order of first appearance: on a path that does not
            # assign one, its value is the one the object had (an input)
            for i, renv in enumerate(self.returns):
                term = term.replace("@WRITES%d@" % i, "; ".join(self.self_attr(x, renv) for x in self.self_writes))
            term = "let eff := ([] : list gv) in\n" + term
        args = " ".join(["(s_%s : gv)" % p for p in sorted(self.self_reads)] + ["(v_%s : gv)" % p for p in self.params])
        ka = " (k : kwargs)" if self.kwarg else ""
        self.signature = (sorted(self.self_reads), list(self.params), self.kwarg is not None)
        if self.io:
            if self.self_writes or self.kwarg:
                raise Untranslatable("%s: a stream method that assigns attributes or takes **kwargs" % self.node.name)
            return "Definition %s %s : IO (world S) gv :=\n%s." % (self.coqname, " ".join("(v_%s : gv)" % p for p in self.params), term)
        return "Definition %s %s%s : result gv :=\n%s." % (self.coqname, args, ka, term)


def find_function(tree, qual):
    parts = qual.split(".")
    body = tree.body
    node = None
    for p in parts:
        node = next((n for n in body if isinstance(n, (ast.FunctionDef, ast.ClassDef)) and n.name == p), None)
        if node is None:
            raise Untranslatable("no definition of %s" % qual)
        body = node.body
    if not isinstance(node, ast.FunctionDef):
        raise Untranslatable("%s is not a function" % qual)
    static = any(isinstance(d, ast.Name) and d.id == "staticmethod" for d in node.decorator_list)
    return node, (len(parts) > 1 and not static)


HEADER = """(* GENERATED by harness/py2coq.py from /repo's working tree — do not edit. *)
From Coq Require Import ZArith List String Bool.
From PyUbx Require Import Base Bytes Fletcher Frame PyFloat Types Strs Walk Consts Tables Msg PyMini.
Import ListNotations.
Open Scope string_scope.
Open Scope Z_scope.
"""


def targets(with_selectors=True):
    """(module name, qualified function name, Coq name)."""
    from pyubx2.ubxvariants import VARIANTS
    import pyubx2.ubxvariants as uv
    sel = []
    for mode in (sorted(VARIANTS) if with_selectors else []):
        for key, f in VARIANTS[mode].items():
            if getattr(f, "__module__", None) != uv.__name__ or getattr(uv, f.__name__, None) is not f:
                raise Untranslatable("VARIANTS[%r][%r] is not a function of ubxvariants.py" % (mode, key))
            if f.__name__ not in sel:
                sel.append(f.__name__)
    out = [("pyubx2.ubxvariants", n, "py_" + n, "(k : kwargs)" if n != "get_mga_dict" else "(v_msg v_mode : gv) (k : kwargs)")
           for n in sorted(sel)]
    # the last component is the signature the proofs expect: a function that cannot be translated gets a stub of
    # that type, so that the development still builds and the statement about it is empty
    out += [("pyubx2.ubxhelpers", "calc_checksum", "py_calc_checksum", "(v_content : gv)"),
            ("pyubx2.ubxhelpers", "isvalid_checksum", "py_isvalid_checksum", "(v_message : gv)"),
            ("pyubx2.ubxhelpers", "getinputmode", "py_getinputmode", "(v_data : gv)"),
            ("pyubx2.ubxreader", "UBXReader.parse", "py_parse", "(v_message v_msgmode v_validate v_parsebitfield : gv)"),
            ("pyubx2.ubxmessage", "UBXMessage._do_len_checksum", "py_do_len_checksum", "(s__payload s__ubxClass s__ubxID : gv)"),
            ("pyubx2.ubxmessage", "UBXMessage.__setattr__", "py_setattr", "(s__immutable v_name v_value : gv)"),
            ("pyubx2.ubxmessage", "UBXMessage.__delattr__", "py_delattr", "(s__immutable v_name : gv)"),
            ("pyubx2.ubxmessage", "UBXMessage.serialize", "py_serialize", "(s__checksum s__length s__payload s__ubxClass s__ubxID : gv)"),
            ("pyubx2.ubxmessage", "UBXMessage._get_dict", "py_get_dict", "(s__mode s__ubxClass s__ubxID s_identity : gv) (k : kwargs)"),
            ("pyubx2.ubxmessage", "UBXMessage.identity", "py_identity", "(s__payload s__ubxClass s__ubxID : gv)")]
    return out, sorted(sel)


def generate(report):
    out = [HEADER]
    done, failed = [], {}
    try:
        tgts, sels = targets()
    except Untranslatable as e:
        failed["VARIANTS"] = str(e)
        tgts, sels = [t for t in targets(False)[0]], []
    arity, sigs = {}, {}

    def one(modname, qual, cn, stub_sig):
        try:
            mod = importlib.import_module(modname)
            path = mod.__file__
            if not os.path.abspath(path).startswith(os.path.abspath(SRC)):
                raise Untranslatable("%s is not loaded from %s" % (modname, SRC))
            tree = ast.parse(open(path, encoding="utf-8").read())
            node, meth = find_function(tree, qual)
            tr = FnTr(mod, node, cn, meth)
            text = tr.translate()
            out.append("(* %s.%s%s *)\n%s\n" % (modname, qual, "".join(
                "   default %s = %s" % (p, d) for p, d in tr.defaults.items() if isinstance(d, int)), text))
            done.append(cn)
            arity[cn] = (len(tr.params), tr.kwarg is not None)
            sigs[cn] = "%s" % (tr.signature,)
        except Untranslatable as e:
            failed[cn] = str(e)
            out.append("(* %s.%s: NOT TRANSLATED (%s) *)\nDefinition %s %s : result gv := Raise EOther.\n" % (
                modname, qual, str(e).replace("*", "x").replace('"', "'")[:200], cn, stub_sig))

    nsel = len(sels)
    for t in tgts[:nsel]:
        one(*t)
    # the selectors by name, as _get_dict calls them: variant(msg, mode, **kwargs) or variant(**kwargs)
    rows = []
    for n in sels:
        cn = "py_" + n
        if cn in done and arity[cn] == (2, True):
            rows.append('if String.eqb name "%s" then (if two then %s msg mode k else Raise EType)' % (n, cn))
        elif cn in done and arity[cn] == (0, True):
            rows.append('if String.eqb name "%s" then (if two then Raise EType else %s k)' % (n, cn))
        elif cn in done:
            failed[cn] = "signature (%d positional, kwargs=%s)" % arity[cn]
            done.remove(cn)
    out.append("(* `two`: called with (msg, mode) and the keywords; otherwise with the keywords only *)\n"
               "Definition py_selector (name : string) (two : bool) (msg mode : gv) (k : kwargs) : result gv :=\n  %s\n  Raise EOther."
               % "\n  else ".join(rows + [""]).rstrip() if rows else
               "Definition py_selector (name : string) (two : bool) (msg mode : gv) (k : kwargs) : result gv := Raise EOther.")
    out.append("Definition py_selectors : list string := [%s]." % "; ".join(
        coq_str(n) for n in sels if "py_" + n in done))
    # a call `f(*pos, **kwargs)` of a local that holds one of those functions
    out.append("Definition py_call (f : gv) (pos : list gv) (k : kwargs) : result gv :=\n"
               "  match f, pos with\n  | Fn n, [] => py_selector n false gnone gnone k\n"
               "  | Fn n, [a; b] => py_selector n true a b k\n  | _, _ => Raise EType\n  end.")
    try:
        from pyubx2.ubxvariants import VARIANTS
        modes = sorted(int(m) for m in VARIANTS)
    except Exception:  # pylint: disable=broad-except
        modes = []
    out.append("Definition variants_modes : list N := [%s]%%N.\n" % "; ".join(str(m) for m in modes))
    for t in tgts[nsel:]:
        one(*t)
    out.append("Definition translated : list string := [%s]." % "; ".join(coq_str(c) for c in done))
    report["py2coq"] = {"translated": done, "untranslated": failed, "signatures": sigs}
    return "\n".join(out) + "\n"


if __name__ == "__main__":
    rep = {}
    sys.path.insert(0, os.path.dirname(os.path.abspath(__file__)))
    text = generate(rep)
    sys.stdout.write(text)
    sys.stderr.write(repr(rep) + "\n")

"""Implementation side of the line protocol: the same commands the OCaml driver accepts,
executed on pyubx2 from /repo's working tree, printed in the same canonical form."""
import contextlib
import io
import os
import struct
import sys

import pyubx2
from pyubx2 import UBXMessage, UBXReader
from pyubx2 import exceptions as ube
from pyubx2 import ubxhelpers as uh

assert pyubx2.__file__.startswith("/repo/src/"), pyubx2.__file__

EXN_NAMES = {
    "UBXParseError": "UBXParseError", "UBXMessageError": "UBXMessageError",
    "UBXTypeError": "UBXTypeError", "UBXStreamError": "UBXStreamError",
    "error": "struct.error",
}


def exn_name(e):
    n = type(e).__name__
    if n.startswith("NMEA"):
        return "NMEAError"
    if n.startswith("RTCM"):
        return "RTCMError"
    return EXN_NAMES.get(n, n)


def hx(b):
    if b is None:
        return "None"
    b = bytes(b)
    return b.hex() if b else "-"


def unhx(s):
    return b"" if s == "-" else bytes.fromhex(s)


def zstr(z):
    return ("-%x" % -z) if z < 0 else ("%x" % z)


def unz(s):
    return -int(s[1:], 16) if s.startswith("-") else int(s, 16)


@contextlib.contextmanager
def quiet():
    """Swallow python-level stdout/stderr (fd-level capture is C13's job)."""
    o, e = sys.stdout, sys.stderr
    sys.stdout, sys.stderr = io.StringIO(), io.StringIO()
    try:
        yield
    finally:
        sys.stdout, sys.stderr = o, e


def front_of_message(validate, data):
    """Observe what UBXReader.parse hands to the constructor: run parse with the
    constructor replaced by a recorder."""
    import pyubx2.ubxreader as ur
    rec = {}

    class Rec:
        def __init__(self, cls, mid, mode, **kw):
            rec["cls"], rec["id"], rec["mode"] = cls, mid, mode
            rec["payload"] = kw.get("payload", None)
    orig = ur.UBXMessage
    ur.UBXMessage = Rec
    try:
        ur.UBXReader.parse(data, validate=validate)
    finally:
        ur.UBXMessage = orig
    return rec


def impl_exec(line):
    t = line.split()
    try:
        return _exec(t)
    except Exception as e:  # pylint: disable=broad-except
        return "RAISE " + exn_name(e)


def _exec(t):
    c = t[0]
    if c == "CK":
        return hx(uh.calc_checksum(unhx(t[1])))
    if c == "ISVALID":
        return "1" if uh.isvalid_checksum(unhx(t[1])) else "0"
    if c == "FRONT":
        r = front_of_message(int(t[1]), unhx(t[2]))
        return "OK %s %s %s" % (hx(r["cls"]), hx(r["id"]), hx(r["payload"]))
    if c == "INTENC":
        sg, w, z = t[1] == "1", int(t[2]), unz(t[3])
        return "OK " + hx(z.to_bytes(w, "little", signed=sg))
    if c == "INTDEC":
        return zstr(int.from_bytes(unhx(t[2]), "little", signed=t[1] == "1"))
    return "ERR unknown command"

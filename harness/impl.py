"""Implementation side of the line protocol: the same commands the OCaml driver accepts,
executed on pyubx2 from /repo's working tree, printed in the same canonical form."""
import contextlib
import io
import os
import struct
import sys

import pyubx2
from pyubx2 import UBXMessage, UBXReader
from pyubx2 import exceptions as ube
from pyubx2 import ubxhelpers as uh

assert pyubx2.__file__.startswith(os.environ.get("VERIF_REPO", "/repo") + "/src/"), pyubx2.__file__

EXN_NAMES = {
    "UBXParseError": "UBXParseError", "UBXMessageError": "UBXMessageError",
    "UBXTypeError": "UBXTypeError", "UBXStreamError": "UBXStreamError",
    "error": "struct.error",
}


def exn_name(e):
    n = type(e).__name__
    if n.startswith("NMEA"):
        return "NMEAError"
    if n.startswith("RTCM"):
        return "RTCMError"
    return EXN_NAMES.get(n, n)


def hx(b):
    if b is None:
        return "None"
    b = bytes(b)
    return b.hex() if b else "-"


def unhx(s):
    return b"" if s == "-" else bytes.fromhex(s)


def zstr(z):
    return ("-%x" % -z) if z < 0 else ("%x" % z)


def unz(s):
    return -int(s[1:], 16) if s.startswith("-") else int(s, 16)


import threading as _threading

_quiet_lock = _threading.Lock()
_quiet_depth = 0
_quiet_saved = None


@contextlib.contextmanager
def quiet():
    """Swallow python-level stdout/stderr (fd-level capture is C13's job).  Re-entrant and safe
    under threads: the first entry swaps the streams, the last exit restores them."""
    global _quiet_depth, _quiet_saved
    with _quiet_lock:
        if _quiet_depth == 0:
            _quiet_saved = (sys.stdout, sys.stderr)
            sys.stdout, sys.stderr = io.StringIO(), io.StringIO()
        _quiet_depth += 1
    try:
        yield
    finally:
        with _quiet_lock:
            _quiet_depth -= 1
            if _quiet_depth == 0:
                sys.stdout, sys.stderr = _quiet_saved


def front_of_message(validate, data):
    """Observe what UBXReader.parse hands to the constructor: run parse with the
    constructor replaced by a recorder."""
    import pyubx2.ubxreader as ur
    rec = {}

    class Rec:
        def __init__(self, cls, mid, mode, **kw):
            rec["cls"], rec["id"], rec["mode"] = cls, mid, mode
            rec["payload"] = kw.get("payload", None)
    orig = ur.UBXMessage
    ur.UBXMessage = Rec
    try:
        ur.UBXReader.parse(data, validate=validate)
    finally:
        ur.UBXMessage = orig
    return rec


def show_val(v):
    if isinstance(v, bool):
        return "I:%d" % int(v)
    if isinstance(v, int):
        return "I:" + zstr(v)
    if isinstance(v, float):
        if v != v:
            return "F:nan"
        return "F:%016x" % struct.unpack("<Q", struct.pack("<d", v))[0]
    if isinstance(v, (bytes, bytearray)):
        return "B:" + hx(v)
    if isinstance(v, str):
        return "S:" + hx(v.encode("utf-8", "surrogatepass"))
    if isinstance(v, list):
        return "L:" + ("|".join(show_val(x) for x in v) or "-")
    if v is None:
        return "N"
    return "O"


def read_val(s):
    if s == "N":
        return None
    if s == "O":
        return (1, 2)       # "other": a tuple
    tag, body = s[0], s[2:]
    if tag == "I":
        return unz(body)
    if tag == "F":
        if body == "nan":
            return float("nan")
        return struct.unpack("<d", struct.pack("<Q", int(body, 16)))[0]
    if tag == "B":
        return unhx(body)
    if tag == "S":
        return unhx(body).decode("utf-8", "surrogatepass")
    if tag == "L":
        return [] if body == "-" else [read_val(x) for x in body.split("|")]
    raise ValueError(s)


def canon_model_line(line):
    """Model output carries CH strings as their source bytes; the implementation decodes them with
    utf-8/backslashreplace.  Bring S: values to the implementation's form."""
    if " S:" not in line and "=S:" not in line and not line.startswith("OK S:"):
        return line
    out = []
    for tok in line.split(" "):
        i = tok.find("S:")
        if i >= 0 and (i == 0 or tok[i - 1] in "=|"):
            parts = tok.split("|")
            np_ = []
            for pt in parts:
                j = pt.find("S:")
                if j >= 0 and (j == 0 or pt[j - 1] == "="):
                    raw = unhx(pt[j + 2:])
                    pt = pt[:j + 2] + hx(raw.decode("utf-8", "backslashreplace").encode("utf-8", "surrogatepass"))
                np_.append(pt)
            tok = "|".join(np_)
        out.append(tok)
    return " ".join(out)


def show_msg(m):
    attrs = " ".join("%s=%s" % (k, show_val(v)) for k, v in m.__dict__.items() if not k.startswith("_"))
    return "OK cls=%s id=%s mode=%d payload=%s len=%s ident=%s ser=%s | %s" % (
        hx(m.msg_cls), hx(m.msg_id), m.msgmode, hx(m.payload), zstr(m.length), m.identity, hx(m.serialize()), attrs)


def read_aty(s):
    if s == "CH":
        return "CH"
    l, k = s.split(":")
    return chr(int(l)) + ("%03d" % int(k) if k != "n" else "xyz")


def read_key(t):
    return unz(t[2:]) if t[0] == "K" else t[2:]


def aty_tail(t):
    """(attsiz or n, letter code) of a type string, as the driver prints them"""
    if t == "CH":
        return "-1 67"
    try:
        n = zstr(int(t[1:4]))
    except ValueError:
        n = "n"
    return "%s %d" % (n, ord(t[0]) if t else 0)


class Hang(BaseException):
    """raised by the watchdog inside a library call that does not return (BaseException: no handler in the library
    or in the harness catches it by accident)"""


import signal as _signal


class watchdog:
    """with watchdog(seconds): ...   -> raises Hang inside the block when it runs longer (main thread only; in other
    threads it is a no-op)."""

    fired = 0          # hangs seen in this process: after three, later cases get 2 s only (the verdict is in already)

    def __init__(self, seconds=30.0):
        self.seconds = seconds if watchdog.fired < 3 else min(seconds, 2.0)
        self.armed = False

    def _fire(self, signum, frame):
        watchdog.fired += 1
        raise Hang("no return within %.0f s" % self.seconds)

    def __enter__(self):
        if _threading.current_thread() is _threading.main_thread():
            self.old = _signal.signal(_signal.SIGALRM, self._fire)
            _signal.setitimer(_signal.ITIMER_REAL, self.seconds)
            self.armed = True
        return self

    def __exit__(self, *a):
        if self.armed:
            _signal.setitimer(_signal.ITIMER_REAL, 0)
            _signal.signal(_signal.SIGALRM, self.old)
        return False


def impl_exec(line):
    t = line.split()
    if watchdog.fired >= 3:
        return "RAISE HANG-SKIPPED"
    try:
        with watchdog(60.0):
            return _exec(t)
    except Hang:
        return "RAISE HANG"
    except Exception as e:  # pylint: disable=broad-except
        return "RAISE " + exn_name(e)


def _exec(t):
    c = t[0]
    if c == "CK":
        return hx(uh.calc_checksum(unhx(t[1])))
    if c == "ISVALID":
        return "1" if uh.isvalid_checksum(unhx(t[1])) else "0"
    if c == "FRONT":
        r = front_of_message(int(t[1]), unhx(t[2]))
        return "OK %s %s %s" % (hx(r["cls"]), hx(r["id"]), hx(r["payload"]))
    if c == "INTENC":
        sg, w, z = t[1] == "1", int(t[2]), unz(t[3])
        return "OK " + hx(z.to_bytes(w, "little", signed=sg))
    if c == "INTDEC":
        return zstr(int.from_bytes(unhx(t[2]), "little", signed=t[1] == "1"))
    if c in ("PARSE", "PARSERT"):
        with quiet():
            m = UBXReader.parse(unhx(t[4]), msgmode=int(t[1]), validate=int(t[2]), parsebitfield=t[3] == "1")
            if c == "PARSE":
                return show_msg(m)
            from pyubx2 import GET, SET, POLL  # noqa: F401  (names eval may need)
            try:
                m2 = eval(repr(m))  # pylint: disable=eval-used
            except Exception as e:  # pylint: disable=broad-except
                return "REPR-RAISE " + exn_name(e)
            return "OK " + hx(m2.serialize())
    if c == "CONSTRUCT":
        with quiet():
            if t[5] == "NONE":
                return show_msg(UBXMessage(unhx(t[1]), unhx(t[2]), int(t[3]), parsebitfield=t[4] == "1"))
            return show_msg(UBXMessage(unhx(t[1]), unhx(t[2]), int(t[3]), parsebitfield=t[4] == "1", payload=unhx(t[6])))
    if c == "BUILD":
        kw = {}
        for tok in t[5:]:
            k, v = tok.split("=", 1)
            kw[k] = read_val(v)
        with quiet():
            return show_msg(UBXMessage(unhx(t[1]), unhx(t[2]), int(t[3]), parsebitfield=t[4] == "1", **kw))
    if c == "NAMED":
        a, b = uh.msgstr2bytes(t[1], t[2])
        return "OK %s %s" % (hx(a), hx(b))
    if c == "INTS":
        a, b = uh.msgclass2bytes(unz(t[1]), unz(t[2]))
        return "OK %s %s" % (hx(a), hx(b))
    if c == "CFGSET":
        items = []
        for tok in t[3:]:
            k, v = tok.split("=", 1)
            items.append((read_key(k), read_val(v)))
        with quiet():
            return show_msg(UBXMessage.config_set(unz(t[1]), unz(t[2]), items))
    if c == "CFGDEL":
        with quiet():
            return show_msg(UBXMessage.config_del(unz(t[1]), unz(t[2]), [read_key(k) for k in t[3:]]))
    if c == "CFGPOLL":
        with quiet():
            return show_msg(UBXMessage.config_poll(unz(t[1]), unz(t[2]), [read_key(k) for k in t[3:]]))
    if c == "CFGNAME2KEY":
        k, ty = uh.cfgname2key(t[1])
        return "OK %s %s" % (zstr(k), aty_tail(ty))
    if c == "CFGKEY2NAME":
        nm, ty = uh.cfgkey2name(unz(t[1]))
        return "OK %s %s" % (nm, aty_tail(ty))
    if c == "INPUTMODE":
        return str(uh.getinputmode(unhx(t[1])))
    if c == "IDENT":
        m = UBXMessage.__new__(UBXMessage)
        object.__setattr__(m, "_immutable", False)
        m._ubxClass, m._ubxID = unhx(t[1]), unhx(t[2])
        m._payload = None if t[3] == "None" else unhx(t[3])
        return m.identity
    if c == "V2B":
        return "OK " + hx(uh.val2bytes(read_val(t[2]), read_aty(t[1])))
    if c == "B2V":
        return "OK " + show_val(uh.bytes2val(unhx(t[2]), read_aty(t[1])))
    if c == "NOMVAL":
        return "OK " + show_val(uh.nomval(read_aty(t[1])))
    if c in ("ROUND", "FMUL", "FADD", "FDIV", "IDIV", "FOFZ", "INTOF", "ROUNDINT"):
        fb = lambda h: struct.unpack("<d", struct.pack("<Q", int(h, 16)))[0]
        if c == "ROUND":
            return "OK " + show_val(round(fb(t[2]), unz(t[1])))
        if c == "FMUL":
            return show_val(fb(t[1]) * fb(t[2]))
        if c == "FADD":
            return show_val(fb(t[1]) + fb(t[2]))
        if c == "FDIV":
            return "OK " + show_val(fb(t[1]) / fb(t[2]))
        if c == "IDIV":
            return "OK " + show_val(unz(t[1]) / unz(t[2]))
        if c == "FOFZ":
            try:
                return show_val(float(unz(t[1])))
            except OverflowError:
                return "F:%016x" % (0x7ff0000000000000 | (0x8000000000000000 if unz(t[1]) < 0 else 0))
        if c == "INTOF":
            return "OK " + zstr(int(fb(t[1])))
        if c == "ROUNDINT":
            return "OK " + zstr(round(fb(t[1])))
    return "ERR unknown command"

import subprocess, json, os, sys
WT=os.environ.get("HS_WT","/tmp/wt_dev"); DEV=os.environ.get("HS_DEV","/tmp/vdev")
def sh(c): return subprocess.run(c, shell=True, stdout=subprocess.PIPE, stderr=subprocess.STDOUT).stdout.decode()
MUTS=[("h1 getinputmode 8 == len(data)","src/pyubx2/ubxhelpers.py","len(data) == 8","8 == len(data)"),
("h2 rtcm3 lor swapped","src/pyubx2/ubxreader.py","size = hdr3[0] | (hdr[1] << 8)","size = (hdr[1] << 8) | hdr3[0]"),
("h3 _recv not data","src/pyubx2/socket_wrapper.py","            if len(data) == 0:\n                return False","            if not data:\n                return False"),
("h4 parse hdr test swapped","src/pyubx2/ubxreader.py","            if hdr != UBX_HDR:","            if UBX_HDR != hdr:"),
("h5 read elif byte1 d3 swapped","src/pyubx2/ubxreader.py","elif byte1 == b\"\\xd3\" and (byte2[0] & ~0x03) == 0:","elif (byte2[0] & ~0x03) == 0 and byte1 == b\"\\xd3\":"),
("h6 parse lenb test swapped","src/pyubx2/ubxreader.py",'if lenb == b"\\x00\\x00":','if b"\\x00\\x00" == lenb:'),
("h7 parse ckm ckv swapped","src/pyubx2/ubxreader.py","if ckm != ckv:","if ckv != ckm:"),
("h8 parse length test swapped","src/pyubx2/ubxreader.py","if lenm - 8 != bytes2val(lenb, U2):","if bytes2val(lenb, U2) != lenm - 8:"),
("h9 parse validate mask swapped","src/pyubx2/ubxreader.py","if validate & VALCKSUM:","if VALCKSUM & validate:"),
("h10 identity conjuncts swapped","src/pyubx2/ubxmessage.py",'if self._ubxClass == b"\\x13" and self._ubxID != b"\\x80":','if self._ubxID != b"\\x80" and self._ubxClass == b"\\x13":'),
("h11 sock read while test swapped","src/pyubx2/socket_wrapper.py","while len(self._buffer) < num:","while num > len(self._buffer):"),
("h12 readline LF test swapped","src/pyubx2/socket_wrapper.py",'if line[-1:] == b"\\n":','if b"\\n" == line[-1:]:'),
("h13 readline len test swapped","src/pyubx2/socket_wrapper.py","            if len(data) == 1:","            if 1 == len(data):"),
("h14 _read_bytes chain reversed","src/pyubx2/ubxreader.py","if 0 < len(data) < size:","if size > len(data) > 0:"),
("h15 read preamble tuple reordered","src/pyubx2/ubxreader.py",'if byte1 not in (b"\\xb5", b"\\x24", b"\\xd3"):','if byte1 not in (b"\\x24", b"\\xd3", b"\\xb5"):'),
("h16 _do_error test swapped","src/pyubx2/ubxreader.py","if self._quitonerror == ERR_RAISE:","if ERR_RAISE == self._quitonerror:"),
("h17 _read_bytes eof test swapped","src/pyubx2/ubxreader.py","        if len(data) == 0:  # EOF","        if 0 == len(data):  # EOF"),
("h18 isvalid_checksum operands swapped","src/pyubx2/ubxhelpers.py","return ckm == calc_checksum(message[2 : lenm - 2])","return calc_checksum(message[2 : lenm - 2]) == ckm"),
("h19 _get_dict POLL test swapped","src/pyubx2/ubxmessage.py","elif self._mode == POLL:","elif POLL == self._mode:"),
("h20 _get_dict NOMINAL test swapped","src/pyubx2/ubxmessage.py",'if self.identity[-7:] == "NOMINAL":','if "NOMINAL" == self.identity[-7:]:'),
("h21 getinputmode VALGET test swapped","src/pyubx2/ubxhelpers.py",'or data[2:4] == b"\\x06\\x8b"','or b"\\x06\\x8b" == data[2:4]'),
("h22 rxmpmreq lpd test swapped","src/pyubx2/ubxvariants.py","    if lpd == 16:\n        return UBX_PAYLOADS_SET[\"RXM-PMREQ\"]","    if 16 == lpd:\n        return UBX_PAYLOADS_SET[\"RXM-PMREQ\"]"),
("h23 getinputmode len bound swapped","src/pyubx2/ubxhelpers.py","and len(data) <= 10","and 10 >= len(data)"),
]
if len(sys.argv)>1: MUTS=[m for m in MUTS if m[0].split()[0] in sys.argv[1:]]
for name,f,a,b in MUTS:
    sh("git -C %s checkout -q -- ."%WT)
    p=os.path.join(WT,f); s=open(p,newline='').read(); crlf="\r\n" in s; t=s.replace("\r\n","\n")
    if a not in t: print((name,"PATTERN NOT FOUND"),flush=True); continue
    t=t.replace(a,b,1); t=t.replace("\n","\r\n") if crlf else t; open(p,'w',newline='').write(t)
    o=sh("cd %s && VERIF_REPO=%s timeout 3000 /venv/bin/python harness/setup.py 2>&1 | tail -3"%(DEV,WT))
    rep=json.load(open(DEV+'/coq/gen/translate_report.json'))
    line=[l for l in o.splitlines() if l.startswith("build ok")]
    print((name, line[-1] if line else o[-200:], {**rep.get("py2coq",{}).get("untranslated",{}), **rep.get("py2coq_io",{}).get("untranslated",{})}),flush=True)
sh("git -C %s checkout -q -- ."%WT)

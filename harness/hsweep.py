import subprocess, json, os
WT="/tmp/wt_dev"
def sh(c): return subprocess.run(c, shell=True, stdout=subprocess.PIPE, stderr=subprocess.STDOUT).stdout.decode()
MUTS=[("h1 getinputmode 8 == len(data)","src/pyubx2/ubxhelpers.py","len(data) == 8","8 == len(data)"),
("h2 rtcm3 lor swapped","src/pyubx2/ubxreader.py","size = hdr3[0] | (hdr[1] << 8)","size = (hdr[1] << 8) | hdr3[0]"),
("h3 _recv not data","src/pyubx2/socket_wrapper.py","            if len(data) == 0:\n                return False","            if not data:\n                return False"),
("h4 parse hdr test swapped","src/pyubx2/ubxreader.py","            if hdr != UBX_HDR:","            if UBX_HDR != hdr:"),
("h5 read elif byte1 d3 swapped","src/pyubx2/ubxreader.py","elif byte1 == b\"\\xd3\" and (byte2[0] & ~0x03) == 0:","elif (byte2[0] & ~0x03) == 0 and byte1 == b\"\\xd3\":"),
]
for name,f,a,b in MUTS:
    sh("git -C %s checkout -q -- ."%WT)
    p=os.path.join(WT,f); s=open(p,newline='').read(); crlf="\r\n" in s; t=s.replace("\r\n","\n")
    if a not in t: print((name,"PATTERN NOT FOUND"),flush=True); continue
    t=t.replace(a,b,1); t=t.replace("\n","\r\n") if crlf else t; open(p,'w',newline='').write(t)
    o=sh("cd /tmp/vdev && VERIF_REPO=%s timeout 3000 /venv/bin/python harness/setup.py 2>&1 | tail -3"%WT)
    rep=json.load(open('/tmp/vdev/coq/gen/translate_report.json'))
    line=[l for l in o.splitlines() if l.startswith("build ok")]
    print((name, line[-1] if line else o[-200:], {**rep.get("py2coq",{}).get("untranslated",{}), **rep.get("py2coq_io",{}).get("untranslated",{})}),flush=True)
sh("git -C %s checkout -q -- ."%WT)

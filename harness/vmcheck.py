"""vmcheck.py — cross-check of extraction: a sample of the commands the extracted OCaml model executed is
re-evaluated INSIDE Coq (vm_compute on the un-extracted definitions of coq/model/*.v) and compared with what the
OCaml driver printed.  A difference means extraction, the OCaml compiler or the driver's conversions distort the
model, i.e. the correspondence would be validating something other than the definitions the theorems talk about.

One generated file (coq/cases/vm_<prop>_<pid>.v), one coqc call, one "VMOK i" / "VMBAD i" line per case.
Supported commands: FRONT CK CKSPEC ISVALID WF INTENC INTDEC PARSE CONSTRUCT BUILD CFGSET CFGDEL CFGPOLL V2B B2V NOMVAL
INPUTMODE READ SOCK GETBITS.  Anything else (or an output this module cannot turn into a Coq term) is skipped and counted.
"""
import os
import re
import subprocess

import common

EXN = {"UBXParseError": "EUBXParse", "UBXMessageError": "EUBXMessage", "UBXTypeError": "EUBXType",
       "UBXStreamError": "EUBXStream", "NMEAError": "ENmea", "RTCMError": "ERtcm", "EOFError": "EEOF",
       "AttributeError": "EAttribute", "struct.error": "EStruct", "TypeError": "EType", "ValueError": "EValue",
       "OverflowError": "EOverflow", "IndexError": "EIndex", "KeyError": "EKey", "UnboundLocalError": "EUnbound",
       "ZeroDivisionError": "EZeroDiv", "MemoryError": "EMemory", "Other": "EOther"}

PRELUDE = r'''From PyUbx Require Import Base Bytes Fletcher Frame Reader Socket PyFloat Types Strs Walk Consts Tables Msg Helpers WfDef.
From Coq Require Import Floats.SpecFloat.
Open Scope Z_scope.
Definition projm (r : result msg) :=
  match r with
  | Ok m => Ok (m_cls m, m_id m, m_mode m, m_payload m, msg_length m, msg_identity m, serialize m, m_attrs m)
  | Raise e => Raise e
  end.
Fixpoint lk (t : list (N * bytes * result bool)) (p : N) (raw : bytes) : result bool :=
  match t with
  | [] => Raise EOther
  | (p', raw', o) :: r => if (N.eqb p p' && beq raw raw')%bool then o else lk r p raw
  end.
Definition nmf (l : list N) (b : N) : bool := existsb (N.eqb b) l.
Definition projr {S} (r : @run S bool) := (items r, reports r, raised r, out_of_fuel r).
Ltac vmc i := tryif assert_succeeds (lazymatch goal with |- _ /\ _ => split | _ => idtac end; vm_compute; reflexivity) then idtac "VMOK" i else idtac "VMBAD" i.
'''


class Skip(Exception):
    pass


def nlist(hexs):
    if hexs == "-" or hexs == "":
        return "(@nil N)"
    if "[" in hexs:
        raise Skip("non-byte element")
    return "[" + ";".join(str(int(hexs[i:i + 2], 16)) for i in range(0, len(hexs), 2)) + "]%N"


def optbytes(s):
    return "(@None bytes)" if s == "None" else "(Some %s)" % nlist(s)


def zz(s):
    """driver integers: [-]<hex>"""
    v = -int(s[1:], 16) if s.startswith("-") else int(s, 16)
    return "(%d)%%Z" % v


def cstring(s):
    if any(ord(c) < 32 or ord(c) > 126 for c in s):
        raise Skip("non-printable string")
    return '"%s"%%string' % s.replace('"', '""')


def pyval(s):
    if s == "N":
        return "PNone"
    if s == "O":
        return "POther"
    tag, body = s[0], s[2:]
    if tag == "I":
        return "(PInt %s)" % zz(body)
    if tag == "F":
        return "(PFloat S754_nan)" if body == "nan" else "(PFloat (b64_of_bits %s))" % zz(body)
    if tag == "B":
        return "(PBytes %s)" % nlist(body)
    if tag == "S":
        return "(PStr %s)" % nlist(body)
    if tag == "L":
        return "(PList (@nil pyval))" if body == "-" else "(PList [%s])" % ";".join(pyval(x) for x in body.split("|"))
    raise Skip("pyval " + s[:10])


def aty(s):
    if s == "CH":
        return "TCH"
    l, k = s.split(":")
    return "(T %s%%N %s)" % (l, "None" if k == "n" else "(Some %s%%nat)" % k)


def key(t):
    if t.startswith("K:"):
        return "(KId %s)" % zz(t[2:])
    return "(KName %s)" % cstring(t[2:])


def exn(nm):
    return EXN.get(nm, "EOther")


def res_bytes(out):
    if out.startswith("OK "):
        return "(Ok %s)" % nlist(out[3:].strip())
    if out.startswith("RAISE "):
        return "(Raise %s)" % exn(out[6:].strip())
    raise Skip("res " + out[:20])


def msg_expected(out):
    if out.startswith("RAISE "):
        return "(Raise %s)" % exn(out[6:].strip())
    m = re.match(r"OK cls=(\S+) id=(\S+) mode=(\d+) payload=(\S+) len=(\S+) ident=(\S*) ser=(\S+) \|(.*)$", out)
    if not m:
        raise Skip("msg line")
    cls, mid, mode, pay, ln, ident, ser, attrs = m.groups()
    al = []
    for t in attrs.split():
        k, v = t.split("=", 1)
        al.append("(%s, %s)" % (cstring(k), pyval(v)))
    attrs_t = "[%s]" % "; ".join(al) if al else "(@nil (string * pyval))"
    return "(Ok (%s, %s, %s%%N, %s, %s, %s, %s, %s))" % (
        nlist(cls), nlist(mid), mode, optbytes(pay), zz(ln), cstring(ident), nlist(ser), attrs_t)


def table(s):
    if s == "-":
        return "(@nil (N * bytes * result bool))"
    rows = []
    for e in s.split(","):
        p, raw, o = e.split(":")
        oc = "(Ok true)" if o == "OK" else "(Ok false)" if o == "NONE" else "(Raise %s)" % exn(o)
        rows.append("(%s%%N, %s, %s)" % (p, nlist(raw), oc))
    return "[%s]" % "; ".join(rows)


def nmea(nm):
    return "nmea_hdr2" if nm == "C" else nlist(nm)


def run_expected(out):
    m = re.match(r"ITEMS (\S+) REPORTS (\S+) RAISED (\S+) FINAL (\S+) FUEL (\d)$", out)
    if not m:
        raise Skip("run line")
    items, reps, raised, final, fuel = m.groups()
    il = []
    if items != "-":
        for it in items.split(","):
            raw, p = it.split(":")
            il.append("(%s, %s)" % (nlist(raw), "Some true" if p == "1" else "@None bool"))
    # parsed flag: the driver prints ":1" only for Some true; Some false and None both print ":0" -> compare loosely
    rl = [exn(x) for x in reps.split(",")] if reps != "-" else []
    return (il, "[%s]" % "; ".join(rl) if rl else "(@nil exn)",
            "(@None exn)" if raised == "None" else "(Some %s)" % exn(raised), final, "true" if fuel == "1" else "false")


def term(cmd, out):
    """(lhs, rhs) Coq terms for one executed command, or raise Skip."""
    t = cmd.split()
    op = t[0]
    if op == "CK":
        return "fletcher %s" % nlist(t[1]), nlist(out)
    if op == "CKSPEC":
        return "fletcher_spec %s" % nlist(t[1]), nlist(out)
    if op == "ISVALID":
        return "isvalid_checksum %s" % nlist(t[1]), "true" if out == "1" else "false"
    if op == "WF":
        return "wellformedb %s" % nlist(t[1]), "true" if out == "1" else "false"
    if op == "FRONT":
        lhs = "match parse_front %s%%N %s with Ok f => Ok (f_cls f, f_id f, f_payload f) | Raise e => Raise e end" % (t[1], nlist(t[2]))
        if out.startswith("RAISE "):
            return lhs, "(Raise %s)" % exn(out[6:].strip())
        _, c, i, pl = out.split()
        return lhs, "(Ok (%s, %s, %s))" % (nlist(c), nlist(i), optbytes(pl))
    if op == "INTENC":
        return "int_enc %s %s%%nat %s" % ("true" if t[1] == "1" else "false", t[2], zz(t[3])), res_bytes(out)
    if op == "INTDEC":
        return "int_dec %s %s" % ("true" if t[1] == "1" else "false", nlist(t[2])), zz(out)
    if op == "PARSE":
        return ("projm (parse %s%%N %s%%N %s %s)" % (t[1], t[2], "true" if t[3] == "1" else "false", nlist(t[4])),
                msg_expected(out))
    if op == "CONSTRUCT":
        kw = "KwNone" if t[5] == "NONE" else "(KwPayload %s)" % nlist(t[6])
        return ("projm (construct %s %s %s%%N %s %s)" % (nlist(t[1]), nlist(t[2]), t[3], "true" if t[4] == "1" else "false", kw),
                msg_expected(out))
    if op == "BUILD":
        kvs = []
        for x in t[5:]:
            k, v = x.split("=", 1)
            kvs.append("(%s, %s)" % (cstring(k), pyval(v)))
        kw = "(KwAttrs %s)" % ("[%s]" % "; ".join(kvs) if kvs else "(@nil (string * pyval))")
        return ("projm (construct %s %s %s%%N %s %s)" % (nlist(t[1]), nlist(t[2]), t[3], "true" if t[4] == "1" else "false", kw),
                msg_expected(out))
    if op == "CFGSET":
        its = []
        for x in t[3:]:
            k, v = x.split("=", 1)
            its.append("(%s, %s)" % (key(k), pyval(v)))
        return ("projm (config_set %s %s %s)" % (zz(t[1]), zz(t[2]), "[%s]" % "; ".join(its) if its else "(@nil (cfgkey * pyval))"),
                msg_expected(out))
    if op in ("CFGDEL", "CFGPOLL"):
        ks = [key(x) for x in t[3:]]
        fn = "config_del" if op == "CFGDEL" else "config_poll"
        return ("projm (%s %s %s %s)" % (fn, zz(t[1]), zz(t[2]), "[%s]" % "; ".join(ks) if ks else "(@nil cfgkey)"),
                msg_expected(out))
    if op == "V2B":
        return "v2b %s %s" % (pyval(t[2]), aty(t[1])), res_bytes(out)
    if op == "B2V":
        if out.startswith("OK "):
            e = "(Ok %s)" % pyval(out[3:].strip())
        elif out.startswith("RAISE "):
            e = "(Raise %s)" % exn(out[6:].strip())
        else:
            raise Skip("b2v")
        return "bytes2val %s %s" % (nlist(t[2]), aty(t[1])), e
    if op == "NOMVAL":
        if out.startswith("OK "):
            e = "(Ok %s)" % pyval(out[3:].strip())
        elif out.startswith("RAISE "):
            e = "(Raise %s)" % exn(out[6:].strip())
        else:
            raise Skip("nomval")
        return "nomval %s" % aty(t[1]), e
    if op == "INPUTMODE":
        return "getinputmode %s" % nlist(t[1]), "%s%%N" % out.strip()
    if op in ("READ", "SOCK"):
        il, reps, raised, final, fuel = run_expected(out)
        cfg = "{| protfilter := %s%%N; quitonerror := %s%%N; parsing := %s |}" % (t[1], t[2], "true" if t[3] == "1" else "false")
        if op == "READ":
            run = "file_read_all (lk %s) (nmf %s) %s %s" % (table(t[6]), nmea(t[4]), cfg, nlist(t[5]))
            fin = "final (%s) = %s" % (run, nlist(final))
        else:
            evs = []
            if t[5] != "-":
                for e in t[5].split(","):
                    evs.append("Fail" if e == "F" else "Chunk (@nil N)" if e == "E" else "Chunk %s" % nlist(e))
            run = "sock_run (lk %s) (nmf %s) %s %s" % (table(t[6]), nmea(t[4]), cfg, "[%s]" % "; ".join(evs) if evs else "(@nil ev)")
            fin = "sock_abs (final (%s)) = %s" % (run, nlist(final))
        lhs = ("(map (fun it => (fst it, match snd it with Some true => true | _ => false end)) (items (%s)), reports (%s), raised (%s), out_of_fuel (%s))"
               % (run, run, run, run))
        ile = "[%s]" % "; ".join(x.replace("Some true", "true").replace("@None bool", "false") for x in il) if il else "(@nil (bytes * bool))"
        rhs = "(%s, %s, %s, %s)" % (ile, reps, raised, fuel)
        return lhs, rhs, fin
    if op == "GETBITS":
        m = int(t[2], 16)
        lhs = "get_bits %s %d%%N" % (nlist(t[1]), m)
        if out == "LOOP":
            return lhs, "(@None (result N))"
        if out.startswith("OK "):
            return lhs, "(Some (Ok %d%%N))" % int(out[3:], 16)
        return lhs, "(Some (Raise %s))" % exn(out[6:].strip())
    raise Skip("op " + op)


def run(prop, pairs, timeout=600):
    """pairs: list of (cmd, driver_output).  Returns dict(checked, ok, bad=[...], skipped, error)."""
    res = {"checked": 0, "ok": 0, "bad": [], "skipped": 0, "error": None}
    goals = []
    for cmd, out in pairs:
        if len(cmd) > 6000 or out.startswith("ERR"):
            res["skipped"] += 1
            continue
        try:
            tm = term(cmd, out)
        except (Skip, ValueError, IndexError, KeyError):
            res["skipped"] += 1
            continue
        goals.append((cmd, out, tm))
    if not goals:
        return res
    cdir = os.path.join(common.COQ, "cases")
    os.makedirs(cdir, exist_ok=True)
    base = "vm_%s_%d" % (prop, os.getpid())
    path = os.path.join(cdir, base + ".v")
    with open(path, "w") as f:
        f.write(PRELUDE)
        for i, (_, _, tm) in enumerate(goals):
            f.write("Goal (%s) = (%s)%s. vmc %d. Abort.\n" % (tm[0], tm[1], (" /\\ " + tm[2]) if len(tm) > 2 else "", i))
    try:
        p = subprocess.run("ulimit -s unlimited 2>/dev/null; coqc -Q model PyUbx -Q gen PyUbx %s" % path, shell=True, cwd=common.COQ,
                           stdout=subprocess.PIPE, stderr=subprocess.STDOUT, timeout=timeout)
        txt = p.stdout.decode("utf-8", "replace")
    except subprocess.TimeoutExpired:
        res["error"] = "coqc timeout"
        txt = ""
    seen = {}
    for m in re.finditer(r"^(VMOK|VMBAD) (\d+)$", txt, re.M):
        seen[int(m.group(2))] = m.group(1)
    for i, (cmd, out, _) in enumerate(goals):
        v = seen.get(i)
        if v is None:
            continue
        res["checked"] += 1
        if v == "VMOK":
            res["ok"] += 1
        else:
            res["bad"].append({"cmd": cmd[:400], "driver": out[:400]})
    if res["checked"] < len(goals) and not res["error"]:
        res["error"] = "coqc stopped early: " + txt[-400:]
    for ext in (".v", ".vo", ".vok", ".vos", ".glob"):
        try:
            os.remove(os.path.join(cdir, base + ext))
        except OSError:
            pass
    try:
        os.remove(os.path.join(cdir, "." + base + ".aux"))
    except OSError:
        pass
    return res

#!/venv/bin/python
"""py2coq_io.py — the methods of UBXReader that read the stream, translated from /repo's working tree into Gallina in a
state-and-exception monad (coq/model/PyMini.v: IO, world, ctl, g_while, g_catchIO), written to coq/gen/PySrcIO.v.

Differences from py2coq.py (pure functions):
  * every local variable lives in a store inside the monad's state (Python keeps what was assigned before an exception
    was raised; reading an unassigned local is UnboundLocalError = EUnbound), parameters are `let`s;
  * statements are compiled compositionally to `IO (world S) ctl` (normal / return v / continue / break), so `while`,
    `continue`, `try/except` with several classes and early `return` keep their meaning;
  * `self.<attr>` reads come from a function `attr : string -> gv` (these methods assign no attribute);
  * `self._stream.read(n)` / `.readline()` are the stream operations `rd` / `rdl`; calls on the logger and the error
    handler are recorded in the state; `self.parse`, `NMEAReader.parse`, `RTCMReader.parse` are an uninterpreted
    function `ext name positional keywords` (what the theorems instantiate with the protocol parsers);
  * calls of sibling methods (`self._read_bytes(..)`) are calls of their translations.
Fail-closed: anything else raises Untranslatable for that method (stub emitted, method left out of `translated_io`).
"""
import ast
import builtins
import importlib
import os
import sys

import py2coq
from py2coq import Untranslatable, coq_str, lit, EXN, IOTerm, FnTr

SRC = py2coq.SRC


METHODS = ["_read_bytes", "_read_line", "_parse_ubx", "_parse_nmea", "_parse_rtcm3", "_do_error", "read"]


class IOTr:
    def __init__(self, mod, node, coqname, siblings, prefix="py_io", store_attrs=()):
        self.mod, self.node, self.coqname, self.siblings = mod, node, coqname, siblings
        self.prefix, self.store_attrs = prefix, set(store_attrs)
        self.n = 0
        a = node.args
        if a.posonlyargs or a.kwonlyargs or a.vararg or a.kwarg or a.defaults:
            raise Untranslatable("%s: parameter kinds" % node.name)
        self.params = [x.arg for x in a.args]
        if not self.params or self.params[0] != "self":
            raise Untranslatable("%s: not a method" % node.name)
        self.params = self.params[1:]
        self.has_loop = any(isinstance(n, ast.While) for n in ast.walk(node))
        self.calls = []
        self.aux = []

    def key(self, name):
        """Store key of a local: every function has its own locals."""
        return "%s.%s" % (self.node.name, name)

    def fresh(self, p="t"):
        self.n += 1
        return "%s%d" % (p, self.n)

    # ---- names ----
    def global_obj(self, e):
        """The module-level object an expression (Name or dotted attribute) denotes, or raise."""
        if isinstance(e, ast.Name):
            if hasattr(self.mod, e.id):
                return getattr(self.mod, e.id)
            if hasattr(builtins, e.id):
                return getattr(builtins, e.id)
            raise Untranslatable("%s: unknown name %s" % (self.node.name, e.id))
        if isinstance(e, ast.Attribute):
            return getattr(self.global_obj(e.value), e.attr)
        raise Untranslatable("%s: not a global" % self.node.name)

    def exn_of(self, e):
        """An exception class expression -> the model's exn (one per third-party family)."""
        import pynmeagps.exceptions as nx
        import pyrtcm.exceptions as rx
        import pyubx2.exceptions as ux
        obj = self.global_obj(e)
        for pn, cn in EXN.items():
            if obj is getattr(ux, pn, None) or obj is getattr(builtins, pn, None):
                return cn, None
        if obj is builtins.EOFError:
            return "EEOF", None
        if obj in (builtins.OSError, builtins.TimeoutError) and self.prefix == "py_sock":
            return "EOther", None       # the socket's failures: one exception in this layer
        for fam, modx, cn in (("nmea", nx, "ENmea"), ("rtcm", rx, "ERtcm")):
            if obj in [o for o in vars(modx).values() if isinstance(o, type)]:
                return cn, (fam, obj)
        raise Untranslatable("%s: exception class %s" % (self.node.name, ast.dump(e)[:60]))

    def is_self(self, e, attr=None):
        return isinstance(e, ast.Attribute) and isinstance(e.value, ast.Name) and e.value.id == "self" and (attr is None or e.attr == attr)

    # ---- expressions: (binds, atom); binds are (name, term) with term an IOTerm or a `result gv` term ----
    def E(self, e):
        if isinstance(e, ast.Constant):
            return [], lit(e.value)
        if isinstance(e, ast.UnaryOp) and isinstance(e.op, (ast.USub, ast.Invert)) and isinstance(e.operand, ast.Constant) \
                and isinstance(e.operand.value, int) and not isinstance(e.operand.value, bool):
            return [], lit(-e.operand.value if isinstance(e.op, ast.USub) else ~e.operand.value)
        if isinstance(e, ast.Name):
            if e.id in self.params:
                return [], "v_" + e.id
            if e.id in self.locals:
                t = self.fresh()
                return [(t, IOTerm("io_get %s" % coq_str(self.key(e.id))))], t
            obj = self.global_obj(e)
            if obj is None or isinstance(obj, (int, bytes, str)):
                return [], lit(obj)
            if isinstance(obj, (tuple, list)) and all(isinstance(x, (int, bytes, str)) for x in obj):
                return [], lit(tuple(obj))
            if isinstance(obj, (set, frozenset)) and all(isinstance(x, bytes) for x in obj):
                return [], lit(tuple(sorted(obj)))        # only ever used on the right of `in`
            raise Untranslatable("%s: name %s used as a value" % (self.node.name, e.id))
        if self.is_self(e) and e.attr in self.store_attrs:
            t = self.fresh()
            return [(t, IOTerm("io_get %s" % coq_str("self." + e.attr)))], t
        if self.is_self(e):
            return [], "(attr %s)" % coq_str(e.attr)
        if isinstance(e, (ast.Tuple, ast.List)):
            bs, atoms = self.Es(e.elts)
            return bs, "(Tup [%s])" % "; ".join(atoms)
        if isinstance(e, ast.Subscript):
            b0, a0 = self.E(e.value)
            s = e.slice
            t = self.fresh()
            if isinstance(s, ast.Slice):
                if s.step is not None:
                    raise Untranslatable("%s: slice step" % self.node.name)
                b1, a1 = self.E(s.lower) if s.lower is not None else ([], "gnone")
                b2, a2 = self.E(s.upper) if s.upper is not None else ([], "gnone")
                return b0 + b1 + b2 + [(t, "g_slice %s %s %s" % (a0, a1, a2))], t
            b1, a1 = self.E(s)
            return b0 + b1 + [(t, "g_index %s %s" % (a0, a1))], t
        if isinstance(e, ast.BinOp):
            ops = {ast.Add: "g_add", ast.Sub: "g_sub", ast.BitAnd: "g_band", ast.Mod: "g_mod", ast.BitOr: "g_bor", ast.LShift: "g_shl"}
            if type(e.op) not in ops:
                raise Untranslatable("%s: operator %s" % (self.node.name, type(e.op).__name__))
            b1, a1 = self.E(e.left)
            b2, a2 = self.E(e.right)
            t = self.fresh()
            return b1 + b2 + [(t, "%s %s %s" % (ops[type(e.op)], a1, a2))], t
        if isinstance(e, ast.Call):
            return self.call(e)
        if isinstance(e, (ast.Compare, ast.BoolOp)) or (isinstance(e, ast.UnaryOp) and isinstance(e.op, ast.Not)):
            c = self.C(e)
            t = self.fresh()
            return [(t, IOTerm("(doM b <- %s; retIO (gbool b))" % c))], t
        raise Untranslatable("%s: expression %s" % (self.node.name, type(e).__name__))

    def Es(self, es):
        bs, atoms = [], []
        for x in es:
            b, a = self.E(x)
            bs += b
            atoms.append(a)
        return bs, atoms

    def kwlist(self, keywords):
        bs, kws = [], []
        for kw in keywords:
            if kw.arg is None:
                raise Untranslatable("%s: **kwargs in a call" % self.node.name)
            b, a = self.E(kw.value)
            bs += b
            kws.append("(%s, %s)" % (coq_str(kw.arg), a))
        return bs, kws

    def call(self, e):
        f = e.func
        t = self.fresh()
        # int.from_bytes(x, "little"[, signed=False])
        if (isinstance(f, ast.Attribute) and f.attr == "from_bytes" and isinstance(f.value, ast.Name) and f.value.id == "int"
                and len(e.args) == 2 and isinstance(e.args[1], ast.Constant) and e.args[1].value == "little"
                and all(kw.arg == "signed" and isinstance(kw.value, ast.Constant) and kw.value.value is False for kw in e.keywords)):
            b, a = self.E(e.args[0])
            return b + [(t, "g_int_from_le %s" % a)], t
        if isinstance(f, ast.Name) and f.id == "len" and self.global_obj(f) is builtins.len and len(e.args) == 1 and not e.keywords:
            b, a = self.E(e.args[0])
            return b + [(t, "g_len %s" % a)], t
        # self._stream.read(n) / self._stream.readline()
        if isinstance(f, ast.Attribute) and self.is_self(f.value, "_stream") and not e.keywords:
            if f.attr == "read" and len(e.args) == 1:
                b, a = self.E(e.args[0])
                return b + [(t, IOTerm("io_read rd %s" % a))], t
            if f.attr == "readline" and not e.args:
                return [(t, IOTerm("io_readline rdl"))], t
            raise Untranslatable("%s: stream method %s" % (self.node.name, f.attr))
        if isinstance(f, ast.Attribute) and self.is_self(f.value, "_socket") and f.attr == "recv" and len(e.args) == 1 and not e.keywords:
            b, a = self.E(e.args[0])
            return b + [(t, IOTerm("io_recv rcv %s" % a))], t
        if isinstance(f, ast.Name) and f.id == "bytes" and self.global_obj(f) is builtins.bytes and len(e.args) == 1 and not e.keywords \
                and not isinstance(e.args[0], (ast.Tuple, ast.List)):
            b, a = self.E(e.args[0])
            return b + [(t, "g_bytes_conv %s" % a)], t
        # the logger and the error handler
        if isinstance(f, ast.Attribute) and self.is_self(f.value, "_logger") and not e.keywords:
            b, atoms = self.Es(e.args)
            return b + [(t, IOTerm("io_eff %s [%s]" % (coq_str("logger." + f.attr), "; ".join(atoms))))], t
        if self.is_self(f, "_errorhandler") and not e.keywords:
            b, atoms = self.Es(e.args)
            return b + [(t, IOTerm("io_eff %s [%s]" % (coq_str("errorhandler"), "; ".join(atoms))))], t
        # sibling methods
        if self.is_self(f) and f.attr in self.siblings and not e.keywords:
            b, atoms = self.Es(e.args)
            fuel = " fuel" if self.siblings[f.attr] else ""
            self.calls.append(f.attr)
            return b + [(t, IOTerm("%s%s%s %s" % (self.prefix, f.attr, fuel, " ".join(atoms))))], t
        # the protocol parsers: uninterpreted
        name = None
        if self.is_self(f, "parse"):
            name = "self.parse"
        elif isinstance(f, ast.Attribute) and f.attr == "parse" and isinstance(f.value, ast.Name):
            import pynmeagps
            import pyrtcm
            obj = self.global_obj(f.value)
            if obj is pynmeagps.NMEAReader:
                name = "NMEAReader.parse"
            elif obj is pyrtcm.RTCMReader:
                name = "RTCMReader.parse"
        if name:
            b, atoms = self.Es(e.args)
            b2, kws = self.kwlist(e.keywords)
            return b + b2 + [(t, "ext %s [%s] [%s]" % (coq_str(name), "; ".join(atoms), "; ".join(kws)))], t
        raise Untranslatable("%s: call %s" % (self.node.name, ast.dump(f)[:80]))

    # ---- binding ----
    def wrap(self, binds, body):
        out = body
        for t, rhs in reversed(binds):
            if isinstance(rhs, IOTerm):
                out = "doM %s <- %s;\n%s" % (t, rhs, out)
            else:
                out = "doM %s <- liftR (%s);\n%s" % (t, rhs, out)
        return out

    # ---- conditions: a term of type IO (world S) bool, with Python's short-circuit order ----
    def C(self, e):
        if isinstance(e, ast.BoolOp):
            cs = [self.C(x) for x in e.values]
            out = cs[-1]
            for c in reversed(cs[:-1]):
                a = self.fresh("b")
                out = ("(doM %s <- %s; if %s then %s else retIO false)" if isinstance(e.op, ast.And)
                       else "(doM %s <- %s; if %s then retIO true else %s)") % (a, c, a, out)
            return out
        if isinstance(e, ast.UnaryOp) and isinstance(e.op, ast.Not):
            a = self.fresh("b")
            return "(doM %s <- %s; retIO (negb %s))" % (a, self.C(e.operand), a)
        if isinstance(e, ast.Compare):
            # a < b < c  ==  a < b and b < c  (b evaluated once: operands here are atoms after A-normalisation)
            binds, atoms = self.Es([e.left] + list(e.comparators))
            parts = []
            for i, op in enumerate(e.ops):
                l, r = atoms[i], atoms[i + 1]
                rnode = e.comparators[i]
                neg = isinstance(op, (ast.NotIn, ast.NotEq, ast.IsNot))
                if isinstance(op, (ast.In, ast.NotIn)):
                    if isinstance(rnode, (ast.Tuple, ast.List)):
                        b = "g_in %s [%s]" % (l, "; ".join(atoms_of_tuple(r)))
                    elif r.startswith("(Tup ["):
                        b = "g_in %s %s" % (l, r[len("(Tup "):-1])
                    else:
                        raise Untranslatable("%s: `in` over a non-tuple" % self.node.name)
                    parts.append("retIO (%s)" % (("negb (%s)" % b) if neg else b))
                elif isinstance(op, (ast.Is, ast.IsNot)):
                    if not (isinstance(rnode, ast.Constant) and rnode.value is None):
                        raise Untranslatable("%s: `is` against something other than None" % self.node.name)
                    parts.append("retIO (%s)" % (("negb (g_is_none %s)" % l) if neg else ("g_is_none %s" % l)))
                elif isinstance(op, (ast.Eq, ast.NotEq)):
                    parts.append("retIO (%s)" % (("negb (g_eq %s %s)" % (l, r)) if neg else ("g_eq %s %s" % (l, r))))
                else:
                    rel = {ast.Lt: "g_lt %s %s" % (l, r), ast.LtE: "g_le %s %s" % (l, r),
                           ast.Gt: "g_lt %s %s" % (r, l), ast.GtE: "g_le %s %s" % (r, l)}
                    if type(op) not in rel:
                        raise Untranslatable("%s: comparison %s" % (self.node.name, type(op).__name__))
                    parts.append("liftR (%s)" % rel[type(op)])
            out = parts[-1]
            for c in reversed(parts[:-1]):
                a = self.fresh("b")
                out = "(doM %s <- %s; if %s then %s else retIO false)" % (a, c, a, out)
            return "(" + self.wrap(binds, out) + ")"
        b, a = self.E(e)
        return "(" + self.wrap(b, "retIO (g_truth %s)" % a) + ")"

    # ---- statements: a term of type IO (world S) ctl ----
    def block(self, stmts):
        terms = [self.stmt(s) for s in stmts if not (isinstance(s, ast.Expr) and isinstance(s.value, ast.Constant))]
        if not terms:
            return "retIO CNormal"
        out = terms[-1]
        for t in reversed(terms[:-1]):
            out = "seqIO (%s)\n(%s)" % (t, out)
        return out

    def setvar(self, name, atom):
        if name in self.params:
            raise Untranslatable("%s: parameter %s reassigned" % (self.node.name, name))
        return "doM _ <- io_set %s %s;\n" % (coq_str(self.key(name)), atom)

    def stmt(self, s):
        if isinstance(s, ast.Pass):
            return "retIO CNormal"
        if isinstance(s, ast.AugAssign):
            tg = s.target
            if not (isinstance(tg, ast.Name) or (self.is_self(tg) and tg.attr in self.store_attrs)):
                raise Untranslatable("%s: augmented assignment target" % self.node.name)
            b, a = self.E(ast.BinOp(left=tg, op=s.op, right=s.value))
            if isinstance(tg, ast.Name):
                return self.wrap(b, self.setvar(tg.id, a) + "retIO CNormal")
            return self.wrap(b, "doM _ <- io_set %s %s;\nretIO CNormal" % (coq_str("self." + tg.attr), a))
        if isinstance(s, ast.Assign):
            if len(s.targets) != 1:
                raise Untranslatable("%s: chained assignment" % self.node.name)
            tg = s.targets[0]
            b, a = self.E(s.value)
            if self.is_self(tg) and tg.attr in self.store_attrs:
                return self.wrap(b, "doM _ <- io_set %s %s;\nretIO CNormal" % (coq_str("self." + tg.attr), a))
            if isinstance(tg, ast.Name):
                return self.wrap(b, self.setvar(tg.id, a) + "retIO CNormal")
            if isinstance(tg, ast.Tuple) and len(tg.elts) == 2 and all(isinstance(x, ast.Name) for x in tg.elts):
                p = self.fresh("p")
                return self.wrap(b, "doM %s <- liftR (g_unpack2 %s);\n%s%sretIO CNormal" % (
                    p, a, self.setvar(tg.elts[0].id, "(fst %s)" % p), self.setvar(tg.elts[1].id, "(snd %s)" % p)))
            raise Untranslatable("%s: assignment target" % self.node.name)
        if isinstance(s, ast.Expr):
            b, a = self.E(s.value)
            return self.wrap(b, "retIO CNormal")
        if isinstance(s, ast.If):
            c = self.fresh("c")
            return "doM %s <- %s;\nif %s then (\n%s\n) else (\n%s\n)" % (c, self.C(s.test), c, self.block(s.body), self.block(s.orelse))
        if isinstance(s, ast.Return):
            if s.value is None:
                return "retIO (CRet gnone)"
            b, a = self.E(s.value)
            return self.wrap(b, "retIO (CRet %s)" % a)
        if isinstance(s, ast.Continue):
            return "retIO CCont"
        if isinstance(s, ast.Break):
            return "retIO CBreak"
        if isinstance(s, ast.Raise):
            exc = s.exc
            if isinstance(exc, ast.Name) and (exc.id in self.locals or exc.id in self.params):
                b, a = self.E(exc)
                return self.wrap(b, "g_reraise %s" % a)
            if isinstance(exc, ast.Call):
                exc = exc.func        # the message is not evaluated (see py2coq.py)
            cn, _ = self.exn_of(exc)
            return "raiseIO %s" % cn
        if isinstance(s, ast.While):
            if s.orelse:
                raise Untranslatable("%s: while/else" % self.node.name)
            # the test and the body of the loop get names of their own, so that theorems can be stated about one iteration
            self.nloops = getattr(self, "nloops", 0) + 1
            cn, bn = "%s%s_test%d" % (self.prefix, self.node.name, self.nloops), "%s%s_body%d" % (self.prefix, self.node.name, self.nloops)
            ct, bt = self.C(s.test), self.block(s.body)
            pdecl = "".join(" (v_%s : gv)" % p for p in self.params)
            puse = "".join(" v_%s" % p for p in self.params)
            import re as _re
            cf = " fuel" if _re.search(r"\bfuel\b", ct) else ""
            bf = " fuel" if _re.search(r"\bfuel\b", bt) else ""
            self.aux.append("Definition %s%s%s : IO (world S) bool :=\n%s." % (cn, " (fuel : nat)" if cf else "", pdecl, ct))
            self.aux.append("Definition %s%s%s : IO (world S) ctl :=\n%s." % (bn, " (fuel : nat)" if bf else "", pdecl, bt))
            return "g_while fuel (%s%s%s) (%s%s%s)" % (cn, cf, puse, bn, bf, puse)
        if isinstance(s, ast.Try):
            if s.orelse or s.finalbody:
                raise Untranslatable("%s: try/else/finally" % self.node.name)
            body = self.block(s.body)
            # handlers are tried in order: fold from the last
            out = None
            clauses = []
            fams = {}
            for h in s.handlers:
                if h.type is None:
                    raise Untranslatable("%s: bare except" % self.node.name)
                classes = h.type.elts if isinstance(h.type, ast.Tuple) else [h.type]
                exs = []
                for c in classes:
                    cn, fam = self.exn_of(c)
                    if fam:
                        fams.setdefault((id(h), fam[0]), set()).add(fam[1])
                    if cn not in exs:
                        exs.append(cn)
                clauses.append((h, exs))
            # a third-party family is one exception in the model: a handler has to name all its classes or none
            import pynmeagps.exceptions as nx
            import pyrtcm.exceptions as rx
            for (hid, fam), got in fams.items():
                allc = {o for n, o in vars(nx if fam == "nmea" else rx).items() if isinstance(o, type) and n.startswith("NMEA" if fam == "nmea" else "RTCM")}
                if got != allc:
                    raise Untranslatable("%s: an except clause names only part of the %s error classes" % (self.node.name, fam))
            term = body
            for h, exs in clauses:
                pre = self.setvar(h.name, "(Exn e)") if h.name else ""
                if h.name and h.name not in self.locals:
                    self.locals.add(h.name)
                term = "g_catchIO (%s)\n[%s] (fun e => %s%s)" % (term, "; ".join(exs), pre, self.block(h.body))
            # (nested catches: an exception raised by an earlier handler could be caught by a later clause, which Python
            #  does not do; refuse when a later clause could catch what an earlier handler raises)
            if len(clauses) > 1:
                for i, (h, _) in enumerate(clauses[:-1]):
                    if any(isinstance(n, (ast.Raise, ast.Call)) for st in h.body for n in ast.walk(st)):
                        raise Untranslatable("%s: a handler that can raise, followed by another except clause" % self.node.name)
            return term
        raise Untranslatable("%s: statement %s" % (self.node.name, type(s).__name__))

    def translate(self):
        self.locals = set()
        for n in ast.walk(self.node):
            if isinstance(n, ast.AugAssign) and isinstance(n.target, ast.Name):
                self.locals.add(n.target.id)
            for t in getattr(n, "targets", []):
                for x in ([t] if isinstance(t, ast.Name) else getattr(t, "elts", [])):
                    if isinstance(x, ast.Name):
                        self.locals.add(x.id)
            if isinstance(n, ast.ExceptHandler) and n.name:
                self.locals.add(n.name)
        body = self.block(self.node.body)
        args = "".join(" (v_%s : gv)" % p for p in self.params)
        fuel = " (fuel : nat)" if self.has_loop else ""
        return "".join(a + "\n\n" for a in self.aux) + "Definition %s%s%s%s : IO (world S) gv :=\nfn_result (\n%s\n)." % (self.prefix, self.node.name, fuel, args, body)


def atoms_of_tuple(term):
    """'(Tup [a; b])' -> ['a', 'b'] (atoms contain no top-level ';' other than the separators)."""
    inner = term[len("(Tup ["):-2]
    out, depth, cur = [], 0, ""
    for ch in inner:
        if ch in "([":
            depth += 1
        elif ch in ")]":
            depth -= 1
        if ch == ";" and depth == 0:
            out.append(cur.strip())
            cur = ""
        else:
            cur += ch
    if cur.strip():
        out.append(cur.strip())
    return out


HEADER = """(* GENERATED by harness/py2coq_io.py from /repo's working tree — do not edit. *)
From Coq Require Import ZArith List String Bool.
From PyUbx Require Import Base Bytes Fletcher Frame PyFloat Types Strs Walk Consts Tables Msg PyMini.
Import ListNotations.
Open Scope string_scope.
Open Scope Z_scope.

Section Gen.
Context {S : Type}.
Variable rd : nat -> S -> bytes * S.
Variable rdl : S -> bytes * S.
Variable attr : string -> gv.
Variable ext : string -> list gv -> list (string * gv) -> result gv.
"""

STUB_SIG = {"_read_bytes": "(v_size : gv)", "_read_line": "", "_parse_ubx": "(v_hdr : gv)", "_parse_nmea": "(v_hdr : gv)",
            "_parse_rtcm3": "(v_hdr : gv)", "_do_error": "(v_err : gv)", "read": "(fuel : nat)"}
# the section variables each translation mentions (a stub has to mention the same ones, so that its type after the section
# is closed is the one the proofs expect)
STUB_USES = {"_read_bytes": ["rd"], "_read_line": ["rdl"], "_parse_ubx": ["rd", "attr", "ext"], "_parse_nmea": ["rdl", "attr", "ext"],
             "_parse_rtcm3": ["rd", "attr", "ext"], "_do_error": ["attr"], "read": ["rd", "rdl", "attr", "ext"]}


def generate(report):
    import pyubx2.ubxreader as ur
    out = [HEADER]
    done, failed = [], {}
    tree = ast.parse(open(ur.__file__, encoding="utf-8").read())
    cls = next((n for n in tree.body if isinstance(n, ast.ClassDef) and n.name == "UBXReader"), None)
    siblings = {}      # name -> takes fuel
    for m in METHODS:
        try:
            if cls is None:
                raise Untranslatable("no class UBXReader")
            node = next((n for n in cls.body if isinstance(n, ast.FunctionDef) and n.name == m), None)
            if node is None:
                raise Untranslatable("no method %s" % m)
            if any(isinstance(n, (ast.Try, ast.While)) for n in ast.walk(node)):
                tr = IOTr(ur, node, "py_io" + m, siblings)          # locals in the store
            else:
                tr = FnTr(ur, node, "py_io" + m, True, io=True, siblings=siblings)   # locals are lets
                tr.has_loop = False
            text = tr.translate()
            bad = [c for c in tr.calls if "py_io" + c not in done]
            if bad:
                raise Untranslatable("%s calls %s, which was not translated" % (m, bad))
            out.append("(* UBXReader.%s *)\n%s\n" % (m, text))
            done.append("py_io" + m)
            siblings[m] = tr.has_loop
        except Untranslatable as e:
            failed["py_io" + m] = str(e)
            siblings[m] = (m == "read")
            out.append("(* UBXReader.%s: NOT TRANSLATED (%s) *)\nDefinition py_io%s %s : IO (world S) gv := %sraiseIO EOther.\n" % (
                m, str(e).replace("*", "x").replace('"', "'")[:200], m, STUB_SIG[m],
                "".join("let _ := %s in " % v for v in STUB_USES[m])))
    out.append("End Gen.\n")
    # ---- SocketWrapper: the buffer is an attribute the methods assign (kept in the store), recv() is the stream ----
    out.append("Section GenSock.\nContext {S : Type}.\nVariable rcv : S -> result bytes * S.\nVariable attr : string -> gv.\n")
    try:
        import pyubx2.socket_wrapper as sw
        stree = ast.parse(open(sw.__file__, encoding="utf-8").read())
        scls = next((n for n in stree.body if isinstance(n, ast.ClassDef) and n.name == "SocketWrapper"), None)
    except Exception:  # pylint: disable=broad-except
        sw, scls = None, None
    ssib = {}
    for m, sig in (("_recv", ""), ("read", "(fuel : nat) (v_num : gv)"), ("readline", "(fuel : nat)")):
        try:
            if scls is None:
                raise Untranslatable("no class SocketWrapper")
            node = next((n for n in scls.body if isinstance(n, ast.FunctionDef) and n.name == m), None)
            if node is None:
                raise Untranslatable("no method %s" % m)
            tr = IOTr(sw, node, "py_sock" + m, ssib, prefix="py_sock", store_attrs=("_buffer",))
            text = tr.translate()
            bad = [c for c in tr.calls if "py_sock" + c not in done]
            if bad:
                raise Untranslatable("%s calls %s, which was not translated" % (m, bad))
            out.append("(* SocketWrapper.%s *)\n%s\n" % (m, text))
            done.append("py_sock" + m)
            ssib[m] = tr.has_loop or any(ssib.get(c) for c in tr.calls)
        except Untranslatable as e:
            failed["py_sock" + m] = str(e)
            ssib[m] = "fuel" in sig
            if m == "readline":
                out.append("Definition py_sockreadline_test1 : IO (world S) bool := raiseIO EOther.\n"
                           "Definition py_sockreadline_body1 (fuel : nat) : IO (world S) ctl := let _ := rcv in let _ := attr in raiseIO EOther.\n")
            if m == "read":
                out.append("Definition py_sockread_test1 (v_num : gv) : IO (world S) bool := raiseIO EOther.\n"
                           "Definition py_sockread_body1 (v_num : gv) : IO (world S) ctl := let _ := rcv in let _ := attr in raiseIO EOther.\n")
            out.append("(* SocketWrapper.%s: NOT TRANSLATED (%s) *)\nDefinition py_sock%s %s : IO (world S) gv := let _ := rcv in let _ := attr in raiseIO EOther.\n" % (
                m, str(e).replace("*", "x").replace('"', "'")[:200], m, sig))
    out.append("End GenSock.\n")
    out.append("Definition translated_io : list string := [%s]." % "; ".join(coq_str(c) for c in done))
    report["py2coq_io"] = {"translated": done, "untranslated": failed}
    return "\n".join(out) + "\n"


UN_TAIL = """
(* read() was not translated on this run: the statement about it is empty *)
Theorem read_agree : forall fuel (w : world S),
  read_ok w (py_read (Datatypes.S fuel) w) (read_one fuel (w_stream w) []).
Proof. exfalso. clear - T_read. vm_compute in T_read. discriminate T_read. Qed.
End R.
"""


def tie_files(report, proofs_dir):
    """(ReaderTie.v, Src_reader_un.v): which proof of `read_agree` the property file uses.  Src_reader_un.v is
    proofs/Src_reader.v up to its LOOP PROOFS marker followed by the empty-premise proof."""
    src = open(os.path.join(proofs_dir, "Src_reader.v"), encoding="utf-8").read()
    mark = src.index("(* ==== LOOP PROOFS")
    un = ("(* GENERATED by harness/py2coq_io.py from proofs/Src_reader.v - do not edit. *)\n" + src[:mark] + UN_TAIL)
    ok = "py_ioread" in report["py2coq_io"]["translated"]
    if ok:
        un = "(* GENERATED by harness/py2coq_io.py: read() was translated on this run, this file is not used. *)\nDefinition unused : unit := tt.\n"
    tie = ("(* GENERATED by harness/py2coq_io.py - do not edit. *)\nFrom PyUbx Require Export %s.\n"
           % ("Src_reader" if ok else "Src_reader_un"))
    return tie, un


if __name__ == "__main__":
    rep = {}
    sys.stdout.write(generate(rep))
    sys.stderr.write(repr(rep) + "\n")
